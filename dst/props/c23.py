"""C23 — multiport memories are equivalent to an ideal Amaranth synchronous memory.

Port-level drive (no transactions): the memory under test and an `amaranth.lib.memory.Memory` of the
same shape / depth / init, with write ports of the same granularity and read ports with the same
transparency sets, sit side by side in one plain Module and receive identical port signals.  The
reference *is* the statement's "ideal Amaranth synchronous memory"; the oracle is equality of every
read port's data in every cycle.
"""

from __future__ import annotations

from ..comp import CompScenario
from ..propbase import PropBase, make_plan

CLASSES = {
    "MultiRead": "MultiReadMemory",
    "XOR": "MultiportXORMemory",
    "XORILVT": "MultiportXORILVTMemory",
    "OneHotILVT": "MultiportOneHotILVTMemory",
}
ILVT = ("XORILVT", "OneHotILVT")


def addr_bits(depth: int) -> int:
    return max(1, (depth - 1).bit_length())


def total_width(cfg) -> int:
    """Row width in bits; `width` is the element width when the row is an ArrayLayout of `elems` elements."""
    return cfg["width"] * (cfg.get("elems") or 1)


def en_width(cfg) -> int:
    """Enable bits of a write port of the ideal memory (granularity counts elements for array rows)."""
    if cfg["gran"] is None:
        return 1
    return (cfg.get("elems") or cfg["width"]) // cfg["gran"]


def cfg_facts(cfg) -> dict:
    """Flat, configuration-only facts (no knowledge of any outcome)."""
    w = total_width(cfg)
    gran = cfg["gran"]
    return {
        "cls": cfg["cls"],
        "nw_gt1": cfg["nw"] > 1,
        "nr_gt1": cfg["nr"] > 1,
        "init_nonzero": any(v != 0 for v in cfg["init"]),
        "gran_set": gran is not None,
        "gran_multi": en_width(cfg) > 1,  # more than one enable bit
        # an address does not fit into a register of the *data* shape
        "addr_trunc": addr_bits(cfg["depth"]) > w - (1 if cfg["signed"] else 0),
        "transparent": any(len(t) > 0 for t in cfg["transp"]),
        "signed": bool(cfg["signed"]),
        "array_shape": bool(cfg.get("elems")),
        "array_elem_gt1": bool(cfg.get("elems")) and cfg["width"] > 1,
        "struct_shape": bool(cfg.get("struct")),
        "nw_zero": cfg["nw"] == 0,  # ROM use: no write port at all
        "undriven_en": bool(cfg.get("undriven")),  # some read port's enable is left at its reset value
    }


def zones_of(cfg) -> list:
    """Which configuration predicates of the defects known on the unchanged tree hold (DESIGN.md 7)."""
    f = cfg_facts(cfg)
    ilvt = f["cls"] in ILVT
    z = []
    if f["cls"] == "XOR" and f["nw_gt1"] and f["init_nonzero"]:
        z.append("F2")
    if ilvt and f["transparent"] and f["addr_trunc"]:
        z.append("F3")
    if f["cls"] == "XORILVT" and f["init_nonzero"]:
        z.append("F4")
    if ilvt and f["gran_multi"] and f["transparent"]:
        z.append("F5")
    if ilvt and f["gran_multi"] and f["nw_gt1"]:
        z.append("F6")
    if f["array_elem_gt1"] and f["gran_set"]:  # granularity of array rows: elements (ideal) vs bits (under test)
        z.append("N1")
    if f["nw_zero"] and f["cls"] != "MultiRead" and f["init_nonzero"]:  # no bank exists that could hold the init
        z.append("Z0")
    return z


# zones whose defect is still present on the unchanged tree (known_findings.json / reported): configurations drawn
# "freely" stay outside these, the other (repaired) zones are ordinary configurations
LIVE_ZONES = ("F6", "Z0")


class Scen(CompScenario):
    transactional = False

    def build(self):
        from amaranth import Module, Signal, Value, signed, unsigned
        from amaranth.lib.data import ArrayLayout, StructLayout
        from amaranth.lib.memory import Memory
        from transactron.utils.amaranth_ext import memory as tmem

        import warnings

        # F4 on the unchanged tree: the ILVT receives the data init; amaranth reports every truncated value
        warnings.filterwarnings("ignore", message=".*will be truncated to the memory shape.*")
        c = self.cfg
        self.depth, self.width, self.nr, self.nw = c["depth"], total_width(c), c["nr"], c["nw"]
        self.gran = c["gran"]
        self.en_w = en_width(c)
        self.transp = [list(t) for t in c["transp"]]
        if c.get("struct"):
            shape = StructLayout({f"f{k}": (signed(w) if sg else unsigned(w)) for k, (w, sg) in enumerate(c["struct"])})
        elif c.get("elems"):
            shape = ArrayLayout(c["width"], c["elems"])
        else:
            shape = signed(self.width) if c["signed"] else unsigned(self.width)
        # initial rows of layout-shaped memories are given as constants of the layout (value-like, the documented
        # element type of `init` of the memories under test; the ideal memory takes them as well); cfg keeps raw bits
        if c.get("struct") or c.get("elems"):
            init = [shape.from_bits(v) for v in c["init"]]
        else:
            init = list(c["init"])
        kw = {"attrs": {"ram_style": "block"}} if c.get("attrs") else {}
        cls = getattr(tmem, CLASSES[c["cls"]])
        if c.get("via_base") and c["cls"] in ILVT:
            # the same memory through the constructor of the common base class, memory_type given explicitly
            kw_dut = dict(kw, memory_type=tmem.MultiportXORMemory if c["cls"] == "XORILVT" else tmem.OneHotCodedILVT)
            cls = tmem.MultiportILVTMemory
        else:
            kw_dut = kw
        self.undriven = sorted(i for i in (c.get("undriven") or []) if i < self.nr)

        m = Module()
        dummy = Signal(name="verif_dummy_sync")
        m.d.sync += dummy.eq(~dummy)
        m.submodules.dut = dut = cls(shape=shape, depth=self.depth, init=list(init), **kw_dut)
        m.submodules.ref = ref = Memory(shape=shape, depth=self.depth, init=list(init), **kw)
        ab = addr_bits(self.depth)
        dwp, rwp = [], []
        for j in range(self.nw):
            d = dut.write_port(granularity=self.gran)
            r = ref.write_port(granularity=self.gran)
            dwp.append(d)
            rwp.append(r)
            en = Signal(self.en_w, name=f"w{j}_en")
            addr = Signal(ab, name=f"w{j}_addr")
            dat = Signal(self.width, name=f"w{j}_data")
            self.add_input(f"w{j}.en", en)
            self.add_input(f"w{j}.addr", addr)
            self.add_input(f"w{j}.data", dat)
            for p in (d, r):
                m.d.comb += [p.en.eq(en), p.addr.eq(addr), Value.cast(p.data).eq(dat)]
        for i in range(self.nr):
            d = dut.read_port(transparent_for=[dwp[j] for j in self.transp[i]])
            r = ref.read_port(transparent_for=[rwp[j] for j in self.transp[i]])
            addr = Signal(ab, name=f"r{i}_addr")
            self.add_input(f"r{i}.addr", addr)
            for p in (d, r):
                m.d.comb += p.addr.eq(addr)
            if i not in self.undriven:  # an undriven enable keeps its reset value: the ideal port reads every cycle
                en = Signal(name=f"r{i}_en")
                self.add_input(f"r{i}.en", en)
                for p in (d, r):
                    m.d.comb += p.en.eq(en)
            self.add_obs(f"dut.r{i}", Value.cast(d.data))
            self.add_obs(f"ref.r{i}", Value.cast(r.data))

        # stimulus state
        self.script: dict = {}
        self.phase_idx = -1
        self.pool = list(range(self.depth))
        self.pr = 0.5
        self.hot = 0
        self.turn = 0
        # oracle / coverage state (derived from the applied stimulus only, so replay needs no PRNG)
        self.hist: list = []  # per cycle: {row: (port, mask)} of the writes applied
        self.rd_en_prev = [0] * self.nr
        self.rd_last_addr = [None] * self.nr
        self.written: set = set()
        self.full_mask = (1 << self.en_w) - 1
        self.last_partial: dict = {}  # row -> port of the last partial write
        return m

    # ---- stimulus -------------------------------------------------------------------------
    def _phase(self, cyc):
        plan = self.cfg["plan"]
        k = 0
        for n, ent in enumerate(plan):
            if ent[0] <= cyc:
                k = n
            else:
                break
        return k, plan[k][1], plan[k][2]

    def _data(self, rng):
        r = rng.random()
        if r < 0.08:
            return 0
        if r < 0.16:
            return (1 << self.width) - 1
        return rng.getrandbits(self.width)

    def _mask(self, rng):
        if self.en_w == 1:
            return 1
        r = rng.random()
        if r < 0.25:
            return self.full_mask
        if r < 0.5:
            return 1 << rng.randrange(self.en_w)
        return rng.randint(1, self.full_mask)

    def stimulus(self, rng, cyc):
        k, kind, p = self._phase(cyc)
        if k != self.phase_idx:  # new phase: new address pool, new read rate, new hot row
            self.phase_idx = k
            if rng.random() < 0.65:
                n = min(self.depth, rng.choice([1, 2, 2, 3, 3, 4]))
                self.pool = sorted(rng.sample(range(self.depth), n))
            else:
                self.pool = list(range(self.depth))
            self.pr = rng.choice([0.2, 0.5, 0.8, 1.0])
            self.hot = rng.choice(self.pool)
        pool = self.pool
        pw, pr = {"random": (p, self.pr), "raw": (0.3, 0.3), "alt": (0.2, self.pr), "endrop": (0.2, 0.4),
                  "collide": (max(p, 0.3), 0.85), "idle": (0.05, 0.1)}[kind]
        wr = []  # [en mask, addr, data, forced]
        for j in range(self.nw):
            wr.append([self._mask(rng) if rng.random() < pw else 0, rng.choice(pool), self._data(rng), False])
        rd = []  # [en, addr]
        for i in range(self.nr):
            rd.append([int(rng.random() < pr), rng.choice(pool)])

        free = not any(c >= cyc for c in self.script)
        if self.nw == 0:  # ROM: nothing to write, the read patterns remain
            if kind in ("alt", "collide"):
                a = self.hot if kind == "alt" else rng.choice(pool)
                for i in range(self.nr):
                    if rng.random() < 0.7:
                        rd[i][1] = a
        elif kind == "raw" and rng.random() < max(p, 0.3):
            j, a, d, i = rng.randrange(self.nw), rng.choice(pool), rng.choice([0, 0, 1, 1, 2]), rng.randrange(self.nr)
            self.script.setdefault(cyc, []).append(("w", j, a, self._mask(rng)))
            self.script.setdefault(cyc + d, []).append(("r", i, a, 1))
            if rng.random() < 0.3:  # a second reader at another distance
                self.script.setdefault(cyc + rng.choice([0, 1, 2]), []).append(("r", rng.randrange(self.nr), a, 1))
        elif kind == "alt":
            if rng.random() < max(p, 0.5):
                self.turn += 1
                j = self.turn % self.nw if rng.random() < 0.8 else rng.randrange(self.nw)
                self.script.setdefault(cyc, []).append(("w", j, self.hot, self._mask(rng)))
            for i in range(self.nr):
                if rng.random() < 0.6:
                    rd[i][1] = self.hot
        elif kind == "endrop" and free and rng.random() < max(p, 0.3):
            i, j, a = rng.randrange(self.nr), rng.randrange(self.nw), rng.choice(pool)
            other = rng.choice(pool)
            var = rng.randrange(4)
            seq = {
                0: [[("r", i, a, 1)], [("w", j, a, None), ("r", i, a, 0)], [("r", i, a, 1)]],
                1: [[("w", j, a, None), ("r", i, a, 0)], [("r", i, a, 0)], [("r", i, a, 1)]],
                2: [[("w", j, a, None), ("r", i, a, 1)], [("r", i, other, 0)],
                    [("w", rng.randrange(self.nw), a, None), ("r", i, a, 0)], [("r", i, a, 1)]],
                3: [[("r", i, a, 1)], [("w", j, a, None), ("r", i, other, 0)], [("r", i, a, 0)], [("r", i, a, 1)]],
            }[var]
            for t, acts in enumerate(seq):
                for act in acts:
                    if act[0] == "w":
                        act = ("w", act[1], act[2], self._mask(rng))
                    self.script.setdefault(cyc + t, []).append(act)
        elif kind == "collide":
            a = rng.choice(pool)
            for i in range(self.nr):
                if rng.random() < 0.85:
                    rd[i][1] = a

        for act in self.script.pop(cyc, []):
            if act[0] == "w":
                _, j, a, mask = act
                wr[j][0], wr[j][1], wr[j][3] = mask, a, True
            else:
                _, i, a, en = act
                rd[i] = [en, a]
        for c in [c for c in self.script if c < cyc]:
            del self.script[c]

        # premise: no two write ports write the same row in one cycle (scripted writes keep their row)
        used = set()
        for j in sorted(range(self.nw), key=lambda j: (not wr[j][3], j)):
            if not wr[j][0]:
                continue
            if wr[j][1] in used:
                rest = [a for a in range(self.depth) if a not in used]
                if rest and not wr[j][3]:
                    wr[j][1] = rng.choice(rest)
                else:
                    wr[j][0] = 0
                    continue
            used.add(wr[j][1])

        stim = {}
        for j in range(self.nw):
            stim[f"w{j}.en"], stim[f"w{j}.addr"], stim[f"w{j}.data"] = wr[j][0], wr[j][1], wr[j][2]
        for i in range(self.nr):
            stim[f"r{i}.en"], stim[f"r{i}.addr"] = rd[i]
        for i in self.undriven:  # no such input: the port's enable is never assigned
            del stim[f"r{i}.en"]
        return stim

    # ---- oracle -----------------------------------------------------------------------------
    def check(self, cyc, stim, obs):
        nw, nr = self.nw, self.nr
        writes = {}
        for j in range(nw):
            en, a = stim.get(f"w{j}.en", 0), stim.get(f"w{j}.addr", 0)
            self.premise(a < self.depth, f"write port {j} address {a} outside depth {self.depth}")
            if en:
                self.premise(a not in writes, f"write ports {writes.get(a, (0,))[0]} and {j} write row {a} in one cycle")
                writes[a] = (j, en)
        reads = []
        for i in range(nr):
            en, a = stim.get(f"r{i}.en", 0), stim.get(f"r{i}.addr", 0)
            if i in self.undriven:
                en = 1  # reset value of the enable of a read port of the ideal memory
            self.premise(a < self.depth, f"read port {i} address {a} outside depth {self.depth}")
            reads.append((en, a))

        # the property: every read port shows what the ideal memory shows, every cycle
        for i in range(nr):
            got, want = obs[f"dut.r{i}"], obs[f"ref.r{i}"]
            if got != want:
                la = self.rd_last_addr[i]
                ctx = {"port": i, "got": got, "want": want, "row": la, "held": not self.rd_en_prev[i],
                       "port_transparent": bool(self.transp[i])}
                for d in (1, 2, 3):  # who wrote the row shown, relative to the read that produced this data
                    if len(self.hist) >= d and la in self.hist[-d]:
                        ctx[f"w_dist{d - 1}"] = self.hist[-d][la][0]
                self.expect(False, "read-data-mismatch",
                            f"read port {i}: memory under test shows {got}, ideal memory shows {want} "
                            f"(row {la} read in the previous cycle, en={self.rd_en_prev[i]})", **ctx)

        # what fired (from the applied stimulus)
        hist = self.hist
        sig = []
        c = self.cfg
        if cyc == 0:
            if c.get("attrs"):
                self.hit("attrs_passed")
            if c.get("via_base") and c["cls"] in ILVT:
                self.hit("ilvt_via_base_class")
            if self.depth == 1:
                self.hit("depth_one")
        for i, (en, a) in enumerate(reads):
            dist = 3
            for d in (0, 1, 2):
                w = writes if d == 0 else (hist[-d] if len(hist) >= d else {})
                if a in w:
                    dist = min(dist, d)
                    if en:
                        self.hit(f"raw_d{d}")
                        if d == 0:
                            self.hit("raw_d0_transparent" if w[a][0] in self.transp[i] else "raw_d0_opaque")
                        if w[a][1] != self.full_mask:
                            self.hit("raw_partial_write")
            if not en and a in writes:
                self.hit("write_to_row_under_disabled_read")
            if en and not self.rd_en_prev[i] and any(len(hist) >= d and a in hist[-d] for d in (1, 2)):
                self.hit("en_dropped_between_write_and_readback")
            if en and a not in self.written and a < len(self.cfg["init"]) and self.cfg["init"][a] != 0:
                self.hit("read_initial_content")
                if nw == 0:
                    self.hit("rom_read_initial_content")
                if c.get("elems") or c.get("struct"):
                    self.hit("layout_init_read")
                if self.cfg["init"][a] < 0:
                    self.hit("negative_init_read")
                if i in self.undriven:
                    self.hit("initial_content_read_by_undriven_enable")
            if en and i in self.undriven:
                self.hit("read_by_undriven_enable")
            if en and dist < 3:
                if i in self.undriven:
                    self.hit("raw_by_undriven_enable")
                if i >= 3:
                    self.hit("raw_on_read_port_ge3")
                if a >= 16:
                    self.hit("raw_on_row_ge16")
                if self.width > 8:
                    self.hit("raw_row_wider_than_8")
                if c.get("struct"):
                    self.hit("raw_struct_row")
            sig.append((en, dist, dist == 0 and writes[a][0] in self.transp[i]))
        for i in range(nr):
            for i2 in range(i + 1, nr):
                if reads[i][0] and reads[i2][0] and reads[i][1] == reads[i2][1]:
                    self.hit("read_address_collision")
                    if reads[i][1] in writes:
                        self.hit("read_collision_on_written_row")
        for a, (j, mask) in writes.items():
            for d in (1, 2):
                if len(hist) >= d and a in hist[-d] and hist[-d][a][0] != j:
                    self.hit("alternating_writers")
            if a not in self.written and a < len(self.cfg["init"]) and self.cfg["init"][a] != 0:
                self.hit("first_write_over_initial_content")
                if j > 0:
                    self.hit("first_write_over_init_by_port_ge1")
            if j >= 3:
                self.hit("write_by_port_ge3")
            if mask != self.full_mask:
                self.hit("partial_write")
                if self.last_partial.get(a, j) != j:
                    self.hit("partial_writes_by_two_ports")
                self.last_partial[a] = j
            else:
                self.last_partial.pop(a, None)
            self.written.add(a)
        if len(writes) > 1:
            self.hit("simultaneous_writes")
        if len(writes) > 3:
            self.hit("four_simultaneous_writes")
        self.visit((tuple(sig), len(writes)), nontrivial=any(s[0] and s[1] < 3 for s in sig))

        hist.append(writes)
        if len(hist) > 3:
            del hist[0]
        for i, (en, a) in enumerate(reads):
            if en:
                self.rd_last_addr[i] = a
            self.rd_en_prev[i] = en


class Prop(PropBase):
    ID = "C23"
    tiers = {
        "quick": {"runs": 2000, "selftest_runs": 4, "shrink_budget_s": 5},
        "thorough": {"runs": 36000, "selftest_runs": 32, "shrink_budget_s": 30},
    }
    rule = ("one run = one (class [for the ILVT memories also built through MultiportILVTMemory(memory_type=...)], depth "
            "1-40, row shape (width 1-64, signedness, array of elements, struct of fields), read port count 1-4, write "
            "port count 0-4 (0 = ROM), init (also for array / struct / signed rows), transparency set per read port, "
            "granularity, attrs, set of read ports whose enable is never driven) configuration; the memory under test and an "
            "amaranth.lib.memory.Memory get the same port signals for 60-200 cycles from a seeded phase plan (random / read-after-write at distance "
            "0-2 / alternating writers / dropped read enable / read collisions / idle) over a small per-phase row "
            "pool; distinct = distinct (configuration, per read port (enable, distance to the last write of its "
            "row, transparent for the writer), number of writes); non-trivial = an enabled read of a row written "
            "in this or the previous two cycles")
    expected_cov = ["raw_d0", "raw_d1", "raw_d2", "raw_d0_transparent", "raw_d0_opaque", "alternating_writers",
                    "en_dropped_between_write_and_readback", "write_to_row_under_disabled_read",
                    "read_address_collision", "read_collision_on_written_row", "read_initial_content",
                    "first_write_over_initial_content", "first_write_over_init_by_port_ge1", "partial_write",
                    "raw_partial_write", "partial_writes_by_two_ports", "simultaneous_writes",
                    "read_by_undriven_enable", "raw_by_undriven_enable", "initial_content_read_by_undriven_enable",
                    "rom_read_initial_content", "layout_init_read", "negative_init_read", "raw_on_read_port_ge3",
                    "write_by_port_ge3", "four_simultaneous_writes", "raw_on_row_ge16", "raw_row_wider_than_8",
                    "raw_struct_row", "depth_one", "attrs_passed", "ilvt_via_base_class"]
    real = ["transactron.utils.amaranth_ext.memory.MultiReadMemory", "…MultiportXORMemory", "…MultiportXORILVTMemory",
            "…MultiportOneHotILVTMemory (with OneHotCodedILVT, Encoder, OneHotMux)", "amaranth.lib.memory.Memory (reference)",
            "amaranth pysim"]
    stubs = ["cycle driver (port-level stimulus)"]
    assumptions = ["addresses stay below depth", "no two write ports write the same row in one cycle (premise)",
                   "initial rows of array / struct shaped memories are given as constants of the layout (value-like, "
                   "the documented element type of `init`; plain lists / dicts are accepted by the ideal memory only)",
                   "a read port whose enable is never assigned keeps the reset value of the enable of the ideal "
                   "memory's read port (1): it reads every cycle"]
    search_space = "memory configurations the constructors accept x port-level histories without same-row double writes"

    # rate of configurations placed inside a defect class known on the unchanged tree (DESIGN.md 7)
    ZONE_RATE = 0.13
    MIXED_RATE = 0.02

    def _draw(self, rng, big, want):
        """One free draw from the constructor domain, biased towards `want` (a zone or None)."""
        cls = rng.choice(["MultiRead", "XOR", "XOR", "XORILVT", "XORILVT", "OneHotILVT", "OneHotILVT"])
        if want in ("F3", "F5", "F6"):
            cls = rng.choice(ILVT)
        elif want == "F2":
            cls = "XOR"
        elif want == "F4":
            cls = "XORILVT"
        elif want == "Z0":
            cls = rng.choice(["XOR", "XORILVT", "OneHotILVT"])
        if big:
            depth = rng.choice(list(range(1, 18)) + [24, 31, 32, 33, 48, 64, 65, 100])
            width = rng.choice([1, 2, 2, 3, 4, 4, 6, 8, 8, 12, 16, 17, 32, 33, 63, 64, 65])
            ports = [1, 2, 2, 3, 3, 4, 4, 5, 6]
        else:
            depth = rng.choice([1, 2, 2, 3, 4, 5, 6, 7, 8, 9, 12, 16, 17, 24, 32, 33, 40])
            width = rng.choice([1, 2, 2, 3, 4, 4, 6, 8, 8, 12, 16, 17, 32, 64])
            ports = [1, 2, 2, 3, 3, 4]
        if want == "F3":
            depth = rng.choice([5, 6, 8, 9, 12, 16])
            width = rng.choice([1, 2])
        nr = rng.choice(ports)
        nw = 1 if cls == "MultiRead" else rng.choice(ports)
        if rng.random() < (0.9 if want == "Z0" else 0.2 if cls == "MultiRead" else 0.05):
            nw = 0  # ROM use
        signed = rng.random() < 0.12 and width >= 2
        elems, struct = 0, None
        if not signed and want != "F3" and rng.random() < (0.9 if want == "N1" else 0.12):
            width, elems = rng.choice([(1, 4), (2, 2), (2, 3), (2, 4), (3, 2), (4, 2), (8, 2), (5, 3), (16, 2)])  # ArrayLayout rows
        elif not signed and want is None and rng.random() < 0.07:  # StructLayout rows: [[field width, field signed], ...]
            struct = [[rng.choice([1, 2, 3, 5, 8]), rng.random() < 0.4] for _ in range(rng.choice([2, 3, 4]))]
            width = sum(f[0] for f in struct)
        gran = None
        if cls != "XOR" and not signed and not struct and nw and rng.random() < (0.8 if want in ("F5", "F6", "N1") else 0.4):
            n = elems or width
            gran = rng.choice([g for g in range(1, n + 1) if n % g == 0])
        tw = width * (elems or 1)
        lo, hi = (-(1 << (width - 1)), (1 << (width - 1)) - 1) if signed else (0, (1 << tw) - 1)
        init = []
        if rng.random() < (0.9 if want in ("F2", "F4", "Z0") or nw == 0 else 0.5):
            n = rng.choice([depth, depth, rng.randint(1, depth)])
            init = [rng.randint(lo, hi) if rng.random() < 0.8 else 0 for _ in range(n)]  # raw bits of the row
        mode = rng.choice(["none", "all", "pairs", "pairs"])
        if want in ("F3", "F5"):
            mode = rng.choice(["all", "pairs"])
        transp = []
        for _ in range(nr):
            if mode == "none":
                transp.append([])
            elif mode == "all":
                transp.append(list(range(nw)))
            else:
                transp.append([j for j in range(nw) if rng.random() < 0.5])
        undriven = []
        if rng.random() < 0.2:  # read ports whose enable is never assigned
            undriven = [i for i in range(nr) if rng.random() < 0.5] or [rng.randrange(nr)]
        return {"cls": cls, "depth": depth, "width": width, "elems": elems, "struct": struct, "signed": signed, "nr": nr,
                "nw": nw, "init": init, "gran": gran, "transp": transp, "undriven": undriven,
                "attrs": rng.random() < 0.15, "via_base": cls in ILVT and rng.random() < 0.2}

    def gen_config(self, rng, tier, idx):
        big = tier == "thorough"
        r = rng.random()
        if r < self.MIXED_RATE:
            target = "any"
        elif r < self.MIXED_RATE + self.ZONE_RATE:
            target = rng.choice(["F2", "F3", "F4", "F5", "F6", "N1", "Z0"])
        else:
            target = None
        for _ in range(400):
            cfg = self._draw(rng, big, target if target != "any" else None)
            z = zones_of(cfg)
            live = [x for x in z if x in LIVE_ZONES and x != target]
            if target == "any" or (not live and (target is None or target in z)):
                break
        cycles = rng.randint(60, 260 if big else 180)
        if cfg["nr"] * max(cfg["nw"], 1) >= 9:  # many blocks to simulate: shorter runs keep the batch time
            cycles = min(cycles, 110)
        cfg["cycles"] = cycles
        cfg["plan"] = make_plan(rng, cycles, ["random", "random", "raw", "raw", "alt", "endrop", "collide", "idle"],
                                min_len=6, max_len=30)
        return cfg

    def make(self, cfg):
        return Scen(cfg)

    def features(self, cfg, viol):
        f = cfg_facts(cfg)
        f["zone"] = "+".join(z for z in zones_of(cfg) if z in LIVE_ZONES) or "none"  # repaired zones are ordinary
        info = viol.get("info") or {}
        f["port_transparent"] = info.get("port_transparent")
        return f

    def violation_class(self, feats):
        if feats.get("zone", "none") != "none":
            return {"kind": feats["kind"], "zone": feats["zone"]}
        return {k: feats.get(k) for k in ("kind", "cls", "zone", "gran_multi", "port_transparent")}

    def cfg_signature(self, cfg):
        return [cfg.get(k) for k in ("cls", "depth", "width", "elems", "signed", "nr", "nw", "gran", "transp")] + \
            [bool(cfg["init"]), cfg.get("struct"), bool(cfg.get("undriven")), bool(cfg.get("attrs")),
             bool(cfg.get("via_base"))]

    def shrink_cfg(self, cfg):
        """Smaller configurations inside the same class of known-defect predicates."""
        z0 = [z for z in zones_of(cfg) if z in LIVE_ZONES]

        def ok(c):
            return [z for z in zones_of(c) if z in LIVE_ZONES] == z0

        cands = []
        if cfg["nr"] > 1:
            for keep in range(cfg["nr"]):
                c = dict(cfg)
                c["nr"], c["transp"] = 1, [cfg["transp"][keep]]
                c["undriven"] = [0] if keep in (cfg.get("undriven") or []) else []
                cands.append(c)
        if cfg["nr"] > 2:  # drop the last read port (the recorded stimulus of the others keeps its meaning)
            c = dict(cfg)
            c["nr"], c["transp"] = cfg["nr"] - 1, cfg["transp"][:-1]
            c["undriven"] = [i for i in (cfg.get("undriven") or []) if i < c["nr"]]
            cands.append(c)
        if cfg["nw"] > 1:
            c = dict(cfg)
            c["nw"] = cfg["nw"] - 1
            c["transp"] = [[j for j in t if j < c["nw"]] for t in cfg["transp"]]
            cands.append(c)
        for d in (1, 2, 3, 4, cfg["depth"] // 2, cfg["depth"] - 1):
            if 1 <= d < cfg["depth"]:
                c = dict(cfg)
                c["depth"], c["init"] = d, cfg["init"][:d]
                cands.append(c)
        if cfg["init"]:
            c = dict(cfg)
            c["init"] = []
            cands.append(c)
        if any(cfg["transp"]):
            c = dict(cfg)
            c["transp"] = [[] for _ in cfg["transp"]]
            cands.append(c)
        if cfg["gran"] is not None:
            c = dict(cfg)
            c["gran"] = None
            cands.append(c)
        if cfg["signed"]:
            c = dict(cfg)
            c["signed"] = False
            c["init"] = [v & ((1 << cfg["width"]) - 1) for v in cfg["init"]]
            cands.append(c)
        if cfg.get("elems") and cfg["gran"] is None:
            c = dict(cfg)
            c["width"], c["elems"] = total_width(cfg), 0
            cands.append(c)
        if cfg.get("struct"):
            c = dict(cfg)
            c["struct"] = None
            cands.append(c)
        if cfg.get("undriven"):
            c = dict(cfg)
            c["undriven"] = []
            cands.append(c)
        for key in ("attrs", "via_base"):
            if cfg.get(key):
                c = dict(cfg)
                c[key] = False
                cands.append(c)
        for c in cands:
            if ok(c):
                yield c


PROP = Prop()
