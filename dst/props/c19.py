"""C19 — Serializer and ArgumentsToResultsZipper keep requests and responses matched.

Serializer: the harness is the in-order server behind `serialized_req_method` /
`serialized_resp_method` (two real `Adapter`s).  It accepts a request with a seeded stall pattern and
offers the response -- an injective function of the request's unique payload -- after a seeded
latency, strictly in request order.  Clients call `serialize_in[i]` / `serialize_out[i]` through real
`AdapterTrans`.  Oracle, every cycle: every executed client request is exactly one server request
with the client's payload; every response the server hands over is received by exactly one client,
and it is the oldest outstanding response *of that client* (so per client: own responses, in order,
none lost, none duplicated).  Head-of-line blocking, refusal at a full id FIFO and scheduling are
never flagged.  `clear` is not called: the statement says nothing about it.

Latency 0 means: the response is offered in the cycle after the request was accepted.  A response in the very cycle
of the request cannot pass through a Serializer: `serialize_out[i]` calls `pending_requests.read` (a BasicFifo, its
readiness and its head are registered), so the id written by `serialize_in` in cycle t is visible from cycle t+1 on;
in cycle t either the id FIFO is empty (no `serialize_out` is ready) or its head is an older request, which an
in-order server answers first.  So a same-cycle response can never be taken, and the server does not offer one.

The only liveness demanded: while the server offers a response and *all* clients ask for theirs, some
client must receive it within a few cycles (otherwise that response is lost for good).

ArgumentsToResultsZipper: the k-th executed `read` returns the k-th written argument paired with the
k-th written result.  Values written in the very cycle of the read count as written (forwarding is
neither demanded nor forbidden).
"""

from __future__ import annotations

from collections import deque

from ..comp import CompScenario, layout_from_spec, spec_leaves, spread, rand_leaf, rand_shape_spec
from ..propbase import PropBase, make_plan

TAGW = 12


def mask(w):
    return (1 << w) - 1


def phase(plan, cyc):
    cur = plan[0]
    for ent in plan:
        if ent[0] <= cyc:
            cur = ent
        else:
            break
    return cur[1], cur[2], cur[0]


def respond(tag, x, wy):
    """The server's answer to a request: injective in the unique tag."""
    if wy > 8:  # wide responses: all bits of y depend on the request
        return ((tag * 5 + 3) & mask(TAGW), ((x + 1) * 0x9E3779B97F4A7C15 ^ tag * 0xC2B2AE3D27D4EB4F ^ 0x2A) & mask(wy))
    return ((tag * 5 + 3) & mask(TAGW), (x ^ (tag & 0xFF) ^ 0x2A) & mask(wy))


class SerializerScen(CompScenario):
    def build(self):
        from transactron.lib import Serializer

        c = self.cfg
        self.n, self.depth = c["ports"], c["depth"]
        self.wx, self.wy = c["wx"], c["wy"]
        self.req_l = [("tag", TAGW), ("x", self.wx)]
        self.resp_l = [("val", TAGW), ("y", self.wy)]
        req = self.callee("req", None, i=self.req_l, o=[])
        resp = self.callee("resp", None, i=[], o=self.resp_l)
        if c.get("depth_default"):  # depth not passed: the documented default (4)
            self.dut = Serializer(port_count=self.n, serialized_req_method=req.iface, serialized_resp_method=resp.iface)
            self.hit("serializer_default_depth")
        else:
            self.dut = Serializer(port_count=self.n, serialized_req_method=req.iface, serialized_resp_method=resp.iface,
                                  depth=self.depth)
        self.mul = c.get("tagmul", 1)
        self.top.add("dut", self.dut)
        for i in range(self.n):
            self.caller(f"in{i}", self.dut.serialize_in[i])
            self.caller(f"out{i}", self.dut.serialize_out[i])
        self.srv: deque = deque()  # requests the server holds, oldest first: dict(tag, x, client, acc, lat)
        self.expq = [deque() for _ in range(self.n)]  # per client: responses it still has to receive
        self.tags: set = set()
        self.tag = 0
        self.stuck = 0
        self.hit("kind_serializer")
        return self.top

    # ---- the server and the clients -----------------------------------------------------------
    def stimulus(self, rng, cyc):
        kind, p, start = phase(self.cfg["plan"], cyc)
        n = self.n
        p_in, p_out, p_acc, p_resp = {
            "random": (p, 1 - p if p not in (0.0, 1.0) else 0.7, 0.8, 0.8),
            "burst": (1.0, 1.0, 1.0, 1.0),
            "fill": (1.0, 0.9, 1.0, 0.0),  # server accepts but does not answer: the id FIFO fills up
            "srvstall": (0.9, 0.9, 0.0, 0.0),  # server neither accepts nor answers
            "slowsrv": (0.9, 0.9, 0.3, 0.3),
            "holdout": (0.8, 1.0, 0.9, 1.0),
            "drain": (0.0, 1.0, 1.0, 1.0),
            "idle": (0.05, 0.1, 0.5, 0.5),
        }[kind]
        stim = {}
        held = (start * 3 + 1) % n if kind == "holdout" else None  # this client stops reading
        for i in range(n):
            stim[f"in{i}.en"] = int(rng.random() < p_in)
            self.tag += 1
            stim[f"in{i}.i.tag"] = spread(self.tag, self.mul, TAGW)  # unique while fewer than 2**TAGW tags are drawn
            stim[f"in{i}.i.x"] = rng.getrandbits(self.wx)
            stim[f"out{i}.en"] = int(rng.random() < p_out) if i != held else 0
        stim["req.en"] = int(rng.random() < p_acc)
        # in-order server: the head request's response becomes available after its latency
        offer = 0
        if self.srv:
            head = self.srv[0]
            if head["lat"] is None:
                head["lat"] = rng.choice([0, 0, 1, 2, 3, 6]) if kind != "drain" else 0
            if kind == "drain" or cyc > head["acc"] + head["lat"]:
                offer = int(rng.random() < p_resp)
            if offer:
                val, y = respond(head["tag"], head["x"], self.wy)
                stim["resp.ret.val"], stim["resp.ret.y"] = val, y
        stim["resp.en"] = offer
        return stim

    # ---- oracle -----------------------------------------------------------------------------------
    def check(self, cyc, stim, obs):
        n = self.n
        in_en = [stim.get(f"in{i}.en", 0) for i in range(n)]
        out_en = [stim.get(f"out{i}.en", 0) for i in range(n)]
        req_en, resp_en = stim.get("req.en", 0), stim.get("resp.en", 0)
        ret = (stim.get("resp.ret.val", 0), stim.get("resp.ret.y", 0))
        # premise: the harness is an in-order server
        if resp_en:
            self.premise(bool(self.srv), "server offers a response only for a request it holds")
            self.premise(ret == respond(self.srv[0]["tag"], self.srv[0]["x"], self.wy), "server responds in request order")
        ins = [i for i in range(n) if obs[f"in{i}.done"]]
        outs = [i for i in range(n) if obs[f"out{i}.done"]]
        req_d, resp_d = obs["req.done"], obs["resp.done"]
        for i in ins:
            self.expect(in_en[i], "ran-when-not-callable", f"serialize_in[{i}] executed without a request", port=f"in{i}")
        for i in outs:
            self.expect(out_en[i], "ran-when-not-callable", f"serialize_out[{i}] executed without a request", port=f"out{i}")
        self.expect(not req_d or req_en, "ran-when-not-callable", "server request method executed while the server stalls", port="req")
        self.expect(not resp_d or resp_en, "ran-when-not-callable", "server response method executed while none is available", port="resp")
        self.expect(req_d == len(ins), "request-lost-or-duplicated",
                    f"clients {ins} had a request accepted, the server received {req_d} request(s)")
        self.expect(resp_d == len(outs), "response-lost-or-duplicated",
                    f"the server handed over {resp_d} response(s), clients {outs} received one")
        level = len(self.srv)
        # responses first (they belong to requests of earlier cycles)
        if outs:
            (i,) = outs
            got = (obs[f"out{i}.o.val"], obs[f"out{i}.o.y"])
            owner = self.srv[0]["client"]
            self.expect(bool(self.expq[i]), "response-without-request",
                        f"client {i} received {got} but has no outstanding request (the response belongs to client {owner})",
                        port=f"out{i}")
            self.expect(got == self.expq[i][0], "response-mismatch",
                        f"client {i} received {got}; its oldest outstanding response is {self.expq[i][0]} "
                        f"(the server answered a request of client {owner})", port=f"out{i}")
            self.expect(got == ret, "response-mismatch", f"client {i} received {got}, the server returned {ret}", port=f"out{i}")
            self.expq[i].popleft()
            self.srv.popleft()
            self.hit("response_delivered")
            if i >= 4:
                self.hit("response_delivered_to_port_4_or_above")
            if got[1] >> 8:
                self.hit("response_value_wider_than_8_bits")
        if ins:
            (i,) = ins
            sent = (stim.get(f"in{i}.i.tag", 0), stim.get(f"in{i}.i.x", 0))
            at_server = (obs["req.arg.tag"], obs["req.arg.x"])
            self.expect(at_server == sent, "request-data-mismatch",
                        f"client {i} sent {sent}, the server received {at_server}", port=f"in{i}")
            self.premise(sent[0] not in self.tags, "request tags are unique")
            self.tags.add(sent[0])
            self.srv.append({"tag": sent[0], "x": sent[1], "client": i, "acc": cyc, "lat": None})
            self.expq[i].append(respond(sent[0], sent[1], self.wy))
            self.hit("request_accepted")
            if len(self.srv) == self.depth:
                self.hit("pending_reached_depth")
                if self.depth >= 6:
                    self.hit("pending_reached_depth_6_or_more")
        # a response offered to clients that all ask must get through eventually
        if resp_en and all(out_en) and not outs:
            self.stuck += 1
        else:
            self.stuck = 0
        self.expect(self.stuck < 2 * n + 4, "response-stuck",
                    f"the server offers the response of client {self.srv[0]['client'] if self.srv else '?'} and all clients "
                    f"ask for theirs, but for {self.stuck} cycles nobody received it")
        # ---- fault kinds that fired -----------------------------------------------------------
        if level == self.depth:
            if any(in_en) and req_en and not ins:
                self.hit("request_refused_idfifo_full")
            if not resp_en:
                self.hit("server_stall_with_idfifo_full")
            if outs and any(in_en):
                self.hit("response_at_full_with_request_waiting")
        if any(in_en) and not req_en:
            self.hit("server_refuses_requests")
        if sum(in_en) >= 2 and ins:
            self.hit("clients_contend_for_server")
        if level and resp_en:
            owner_now = outs[0] if outs else self.srv[0]["client"]
            if not outs and not out_en[owner_now] and any(out_en[j] and self.expq[j] for j in range(n) if j != owner_now):
                self.hit("head_of_line_blocking")  # allowed behaviour: others wait behind a client that does not read
        if ins and outs:
            self.hit("req_and_resp_same_client_same_cycle" if ins[0] == outs[0] else "req_and_resp_different_clients_same_cycle")
        if any(en and not d for en, d in zip(in_en, [obs[f"in{i}.done"] for i in range(n)])) and req_en and level < self.depth and not ins:
            self.hit("blocked_though_ready")
        self.visit(("ser", level, tuple(min(len(q), 2) for q in self.expq), tuple(ins), tuple(outs), resp_en, req_en),
                   nontrivial=bool(ins or outs))

    def finish(self):
        if self.srv:
            self.hit("leftover_in_flight_at_end")  # coverage only: they are still in flight, not lost
        elif self.tags:
            self.hit("drained_clean")
        self.notes["requests"] = len(self.tags)
        self.notes["in_flight_at_end"] = len(self.srv)


class ZipperScen(CompScenario):
    def build(self):
        from transactron.lib import ArgumentsToResultsZipper

        c = self.cfg
        # "x" / "y": a width (the old form) or any shape spec of comp.layout_from_spec (wide, signed, nested struct, array)
        self.al_spec = [["tag", TAGW], ["x", c["wx"]]]
        self.rl_spec = [["val", TAGW], ["y", c["wy"]]]
        self.aleafs = spec_leaves(self.al_spec)
        self.rleafs = spec_leaves(self.rl_spec)
        self.mul = c.get("tagmul", 1)
        obj = bool(c.get("layout_obj"))
        self.dut = ArgumentsToResultsZipper(layout_from_spec(self.al_spec, obj), layout_from_spec(self.rl_spec, obj))
        self.top.add("dut", self.dut)
        self.caller("wa", self.dut.write_args)
        self.caller("wr", self.dut.write_results)
        self.caller("rd", self.dut.read)
        self.A: list = []
        self.R: list = []
        self.k = 0
        self.atags: set = set()
        self.rtags: set = set()
        self.hit("kind_zipper")
        return self.top

    def stimulus(self, rng, cyc):
        kind, p, _ = phase(self.cfg["plan"], cyc)
        pa, pr, pd = {
            "random": (p, rng.choice([0.3, 0.7]), 1 - p if p not in (0.0, 1.0) else 0.6),
            "all": (1.0, 1.0, 1.0),
            "argsfirst": (1.0, 0.0, 0.0),
            "resfirst": (0.0, 1.0, 0.0),
            "noread": (0.8, 0.8, 0.0),
            "lag": (0.7, 0.0, 0.9),
            "drain": (0.0, 0.5, 1.0),
            "idle": (0.05, 0.05, 0.05),
        }[kind]
        if kind == "lag":  # the callee answers a seeded number of cycles after the arguments were written
            pr = 0.6 if len(self.R) < len(self.A) else 0.0
        stim = {"wa.en": int(rng.random() < pa), "wr.en": int(rng.random() < pr), "rd.en": int(rng.random() < pd)}
        # unique tags (cycle number * odd constant modulo 2**TAGW; results: another odd constant), noise elsewhere
        for k, (f, w, sgn) in enumerate(self.aleafs):
            stim[f"wa.i.{f}"] = spread(cyc + 1, self.mul, w) if k == 0 else rand_leaf(rng, w, sgn)
        for k, (f, w, sgn) in enumerate(self.rleafs):
            stim[f"wr.i.{f}"] = spread(cyc + 1, self.mul * 3, w) if k == 0 else rand_leaf(rng, w, sgn)
        return stim

    def check(self, cyc, stim, obs):
        en = {p: stim.get(f"{p}.en", 0) for p in ("wa", "wr", "rd")}
        done = {p: obs[f"{p}.done"] for p in ("wa", "wr", "rd")}
        for p in en:
            self.expect(not done[p] or en[p], "ran-when-not-callable", f"{p} executed without a request", port=p)
        a_before, r_before = len(self.A) - self.k, len(self.R) - self.k
        if done["wa"]:
            v = tuple(stim.get(f"wa.i.{f}", 0) for f, _, _ in self.aleafs)
            self.premise(v[0] not in self.atags, "argument tags are unique")
            self.atags.add(v[0])
            self.A.append(v)
        if done["wr"]:
            v = tuple(stim.get(f"wr.i.{f}", 0) for f, _, _ in self.rleafs)
            self.premise(v[0] not in self.rtags, "result tags are unique")
            self.rtags.add(v[0])
            self.R.append(v)
        if done["rd"]:
            k = self.k
            ga = tuple(obs[f"rd.o.args.{f}"] for f, _, _ in self.aleafs)
            gr = tuple(obs[f"rd.o.results.{f}"] for f, _, _ in self.rleafs)
            self.expect(k < len(self.A), "read-without-args", f"read #{k} executed, only {len(self.A)} argument(s) were ever written; returned args {ga}")
            self.expect(k < len(self.R), "read-without-results", f"read #{k} executed, only {len(self.R)} result(s) were ever written; returned results {gr}")
            self.expect(ga == self.A[k], "args-mismatch", f"read #{k} returned args {ga}, the {k}-th written argument is {self.A[k]}")
            self.expect(gr == self.R[k], "results-mismatch", f"read #{k} returned results {gr}, the {k}-th written result is {self.R[k]}")
            self.k += 1
            self.hit("read")
            for leafs, got in ((self.aleafs, ga), (self.rleafs, gr)):
                for (f, w, sgn), v in zip(leafs[1:], got[1:]):
                    if w > 8 and (v if v >= 0 else v + (1 << w)) >> 8:
                        self.hit("zipper_value_wider_than_8_bits")
                    if sgn and v < 0:
                        self.hit("zipper_negative_signed_field")
                if len(leafs) > 2:
                    self.hit("zipper_struct_or_array_field")
            if r_before == 0:
                self.hit("read_result_forwarded_same_cycle")
            if done["wa"] and done["wr"]:
                self.hit("read_and_both_writes_same_cycle")
        if en["wa"] and not done["wa"] and a_before >= 2:
            self.hit("args_write_refused_fifo_full")
        if en["wr"] and not done["wr"] and r_before >= 1:
            self.hit("results_write_refused_buffer_full")
        if a_before > r_before and en["rd"] and not done["rd"] and not done["wr"]:
            self.hit("read_waits_for_results")
        if r_before > a_before and en["rd"] and not done["rd"] and not done["wa"]:
            self.hit("read_waits_for_args")
        if en["rd"] and not done["rd"] and a_before > 0 and r_before > 0:
            self.hit("blocked_though_ready")
        self.visit(("zip", min(a_before, 3), min(r_before, 2), tuple(sorted(p for p in done if done[p]))),
                   nontrivial=bool(done["rd"]) or a_before >= 2 or r_before >= 1)

    def finish(self):
        self.notes["reads"] = self.k


class Prop(PropBase):
    ID = "C19"
    tiers = {
        "quick": {"runs": 400, "selftest_runs": 4},
        "thorough": {"runs": 9000, "selftest_runs": 32},
    }
    rule = ("one run = a Serializer (1-4 ports, a share 5-8; depth 1-5, a share 6-8 or the constructor default; payload fields "
            "1-40 bits) between seeded clients and an in-order server played by the "
            "harness (seeded accept stalls, response latency 0-6, phases random / burst / fill / server stall / slow "
            "server / one client not reading / idle, then a final drain), or an ArgumentsToResultsZipper (narrow fields, or wide "
            "/ signed / nested-struct / array fields, layouts as lists or StructLayout objects) under phases "
            "random / all / args first / results first / no read / lagging results / drain / idle; 60-240 cycles; "
            "distinct = distinct (configuration, outstanding count, per-client outstanding (capped), executed set); "
            "non-trivial = a request or response was transferred (zipper: read executed or a buffer is full)")
    expected_cov = ["kind_serializer", "kind_zipper", "request_accepted", "response_delivered", "pending_reached_depth",
                    "request_refused_idfifo_full", "server_stall_with_idfifo_full", "server_refuses_requests",
                    "clients_contend_for_server", "head_of_line_blocking", "req_and_resp_different_clients_same_cycle",
                    "req_and_resp_same_client_same_cycle", "response_at_full_with_request_waiting", "drained_clean",
                    "read", "read_result_forwarded_same_cycle", "read_and_both_writes_same_cycle",
                    "args_write_refused_fifo_full", "results_write_refused_buffer_full", "read_waits_for_results",
                    "read_waits_for_args", "serializer_default_depth", "response_delivered_to_port_4_or_above",
                    "response_value_wider_than_8_bits", "pending_reached_depth_6_or_more",
                    "zipper_value_wider_than_8_bits", "zipper_negative_signed_field", "zipper_struct_or_array_field"]
    real = ["transactron.lib.reqres.Serializer", "transactron.lib.reqres.ArgumentsToResultsZipper",
            "transactron.lib.fifo.BasicFifo", "transactron.lib.connectors.Forwarder",
            "transactron.lib.adapters.AdapterTrans (clients)", "transactron.lib.adapters.Adapter (server methods)",
            "TransactionManager + scheduler", "amaranth pysim"]
    stubs = ["in-order server behind the two Adapters (queue, latency, stalls)", "clients (cycle driver)",
             "per-client expected-response queues / written-value lists"]
    assumptions = [
        "Serializer.clear is never called (the statement says nothing about it)",
        "the Serializer is assumed to pass requests and responses through in the cycle they execute (no internal buffering "
        "of payloads): a client's request reaches the server, and a response its client, in the cycle of the call",
        "a response is reported stuck only after 2*ports+4 cycles in which the server offers it and all clients ask",
    ]
    search_space = "port counts, depths, request/response interleavings, server stall and latency patterns, client read patterns"

    def gen_config(self, rng, tier, idx):
        big = tier == "thorough"
        cfg = {"kind": "serializer" if rng.random() < 0.75 else "zipper", "sched": rng.choice(["eager", "eager", "rr"])}
        cfg["wx"], cfg["wy"] = rng.choice([1, 4, 8]), rng.choice([1, 3, 8])
        cycles = rng.randint(60, 240 if not big else 400)
        cfg["tagmul"] = rng.getrandbits(TAGW) | 1
        if cfg["kind"] == "serializer":
            cfg["ports"] = rng.randint(1, 4)
            cfg["depth"] = rng.randint(1, 5)
            if rng.random() < 0.2:
                cfg["ports"] = rng.randint(5, 8)
            r = rng.random()
            if r < 0.15:
                cfg["depth"] = rng.randint(6, 8)
            elif r < 0.3:
                cfg["depth"], cfg["depth_default"] = 4, 1  # the argument is not passed
            if rng.random() < 0.3:
                cfg["wx"], cfg["wy"] = rng.choice([8, 24, 40]), rng.choice([13, 24, 40])
            kinds = ["random", "random", "burst", "fill", "srvstall", "slowsrv", "idle"] + (["holdout"] * 2 if cfg["ports"] > 1 else [])
            drain = 0
            if rng.random() < 0.8:
                drain = 3 * cfg["depth"] + 2 * cfg["ports"] + 6
            plan = make_plan(rng, cycles - drain, kinds, min_len=5, max_len=30)
            if drain:
                plan.append([cycles - drain, "drain", 1.0])
        else:
            if rng.random() < 0.6:
                cfg["wx"] = rand_shape_spec(rng) if rng.random() < 0.7 else rng.choice([24, 40, 64])
                cfg["wy"] = rand_shape_spec(rng) if rng.random() < 0.7 else rng.choice([13, 33, 64])
            cfg["layout_obj"] = int(rng.random() < 0.25)
            kinds = ["random", "random", "all", "argsfirst", "resfirst", "noread", "lag", "drain", "idle"]
            plan = make_plan(rng, cycles, kinds, min_len=4, max_len=20)
        cfg["cycles"] = cycles
        cfg["plan"] = plan
        return cfg

    def make(self, cfg):
        return SerializerScen(cfg) if cfg["kind"] == "serializer" else ZipperScen(cfg)

    def features(self, cfg, viol):
        return {"component": cfg["kind"]}

    def cfg_signature(self, cfg):
        return {k: v for k, v in cfg.items() if k not in ("plan", "cycles")}

    def shrink_cfg(self, cfg):
        if cfg["kind"] == "serializer":
            if cfg["depth"] > 1:
                c = dict(cfg)
                c["depth"] = cfg["depth"] - 1
                c.pop("depth_default", None)
                yield c
            if cfg["ports"] > 1:
                c = dict(cfg)
                c["ports"] = cfg["ports"] - 1
                yield c
        if cfg["sched"] != "eager":
            c = dict(cfg)
            c["sched"] = "eager"
            yield c


PROP = Prop()
