"""C18 — method transformers and connectors implement their documented function.

One run = one transformer kind (cfg["kind"]) in one configuration.  Every method the transformer
requires is a real `Adapter` whose readiness (`.en`) and returned data the driver owns each cycle
(or, in a share of the runs, a stub whose method has a real `validate_arguments` predicate);
the method the transformer provides is called through a real `AdapterTrans`.  The oracle is the
combinational relation the statement gives, evaluated on the settled values of every cycle.

How the transformer is built is part of the configuration: through its constructor (the harness
then defines the required methods) or through the documented factory `X.create(...)` around
existing target methods (cfg["factory"]); added to the design directly or through
`Transformer.use(m)` (cfg["use"]).  Map / condition functions are python functions or -- the
documented alternative -- a `Method` (an `Adapter` stub whose result the driver owns).

What is demanded (and what is deliberately not):

* "runs" of a caller are never demanded beyond the statement: `done => en and model-ready`,
  `en & ready & ~done` is only counted.  Readiness (`<caller>.runnable` while the caller requests) is
  compared only where the statement gives it: MethodFilter with use_condition and a false condition
  is callable; MethodTryProduct is never blocked by the readiness of its targets; a lone
  NonexclusiveWrapper caller is callable iff the target is; nothing that must call a non-ready target
  is callable.  "Refused although every target is ready" (MethodMap, MethodFilter, MethodProduct,
  simultaneous NonexclusiveWrapper callers) is only counted.
  Exceptions, because the statement itself says so: ConnectTrans transfers
  *exactly when* both methods can run (it is the only transaction, nothing can compete);
  MethodTryProduct calls *exactly* the ready targets whenever it runs; a CrossbarConnectTrans
  leaves no ready-ready pair of unused methods -- maximality is a property of the *eager* scheduler
  and is demanded only for sched == "eager"; under "rr" only safety (matching + data) is checked.
* Documented defaults are judged as documented: MethodFilter without `default` returns zero;
  MethodProduct without a combiner returns the result of the first target; MethodTryProduct without
  a combiner returns an empty structure (nothing to judge).
* A target whose `validate_arguments` rejects the argument "cannot run" with that argument: a
  transformer that has to call it does not execute (judged: `done => ...`), a rejected call is never
  executed (judged).  For MethodTryProduct such a target is just not called and not reported as
  succeeded (judged); whether the product itself is still callable in such a cycle is not documented
  (counted).  No validating target is put behind NonexclusiveWrapper (its argument depends on the grant).
* MethodFilter without use_condition and a false condition: whether a non-ready target blocks the
  call is left open by the statement (the code blocks) -- accepted either way, counted.
* NonexclusiveWrapper with two callers in one cycle: forwarding of the call and of the result is
  checked, the combined argument is not (the statement does not define it).
* Collector: a result counts as lost only if nothing moved for several cycles while the caller kept
  asking and an undelivered result exists (the statement has no latency bound).  Every run ends with
  a drain tail (targets silent, caller asking) so that the results taken last are judged too.

Layouts (cfg["ilay"], cfg["olay"], ...): JSON lists of [name, spec]; spec = w > 0 (unsigned(w)),
w < 0 (signed(-w)) or a nested list (struct).  Values are handled per scalar leaf, in the form the
simulator reports them (signed leaves as negative numbers).
"""

from __future__ import annotations

from itertools import permutations

from amaranth import Elaboratable, Signal

from ..comp import CompScenario, VAdapter, leaves
from ..propbase import PropBase, make_plan

KINDS = ["connect", "crossbar", "map", "filter", "product", "tryproduct", "nonexclusive", "collector"]
TRANSFORMERS = ["map", "filter", "product", "tryproduct", "nonexclusive", "collector"]
PHASES = ["random", "sweep", "allnot", "flap", "drop", "idle", "allready"]
STUCK = 4  # Collector: cycles without any movement, caller asking, before an undelivered result is "lost"
TAIL = 8   # Collector: length of the final drain phase
RICH_W = [1, 1, 2, 3, 5, 8, 13, 16, 32, 33, 64]


def mask(w):
    return (1 << w) - 1


# ------------------------------------------------------------------------------------------------
# layouts: JSON spec <-> method layout <-> scalar leaves


def flat(spec, prefix=""):
    """[(path, width, signed)] of the scalar leaves, in declaration order."""
    out = []
    for name, s in spec or []:
        if isinstance(s, list):
            out += flat(s, f"{prefix}{name}.")
        else:
            out.append((f"{prefix}{name}", abs(s), s < 0))
    return out


def mlayout(spec):
    from amaranth import signed

    out = []
    for name, s in spec or []:
        if isinstance(s, list):
            out.append((name, mlayout(s)))
        else:
            out.append((name, signed(-s) if s < 0 else s))
    return out


def scalar_first(spec):
    return bool(spec) and not isinstance(spec[0][1], list)


def canon(v, w, s):
    """The w-bit pattern of v as the simulator reports a leaf of that shape."""
    v &= mask(w)
    if s and v >> (w - 1):
        v -= 1 << w
    return v


def getp(x, path):
    for p in path.split("."):
        x = x[p]
    return x


def nest(d):
    out: dict = {}
    for path, v in d.items():
        ps = path.split(".")
        cur = out
        for p in ps[:-1]:
            cur = cur.setdefault(p, {})
        cur[ps[-1]] = v
    return out


def fit(v, w):
    """The value v as exactly w bits (truncated / extended): `assign` wants equal shapes."""
    from amaranth import C

    return (v + C(0, w))[:w]


def fitl(v, leaf):
    _, w, s = leaf
    r = fit(v, w)
    return r.as_signed() if s else r


def rndv(rng, w, s, small=False):
    if small:
        v = rng.randrange(4)
    else:
        r = rng.random()
        if r < 0.1:
            v = 0
        elif r < 0.2:
            v = mask(w)
        elif r < 0.25:
            v = 1 << (w - 1)
        else:
            v = rng.getrandbits(w)
    return canon(v, w, s)


def gen_w(rng):
    w = rng.choice(RICH_W)
    return -w if w > 1 and rng.random() < 0.25 else w


def gen_layout(rng, names):
    """A layout outside the two-unsigned-fields family: 0-4 fields, 1-64 bits, signed, nested."""
    n = 0 if rng.random() < 0.12 else rng.choice([1, 1, 2, 3, 3, 4])
    out = []
    for nm in names[:n]:
        if rng.random() < 0.15:
            out.append([nm, [["x", gen_w(rng)], ["y", gen_w(rng)]]])
        else:
            out.append([nm, gen_w(rng)])
    return out


class VStub(VAdapter):
    """A free-standing method (for the `create` factories) with a hardware validate_arguments predicate:
    the first field of the argument must differ from k.  Same body as comp.VAdapter."""

    def __init__(self, i, o, k, name=None):
        from transactron import Method

        self.iface = Method(name=name, i=i, o=o)
        self.k = k
        self.en = Signal()
        self.done = Signal()
        self.data_in = Signal(self.iface.layout_out)
        self.data_out = Signal(self.iface.layout_in)
        self.first = next(iter(self.iface.layout_in.members))


class UseWrap(Elaboratable):
    """Adds the transformer to its module the documented way: `method = transformer.use(m)`."""

    def __init__(self, tr, scen):
        self.tr, self.scen = tr, scen

    def elaborate(self, platform):
        from transactron import TModule

        m = TModule()
        meth = self.tr.use(m)
        self.scen.use_ok = meth is self.tr.method
        return m


class Base(CompScenario):
    """Shared stimulus machinery: phase plan -> readiness pattern of the targets, caller requests."""

    targets: list = []  # adapter names whose readiness is driven
    callers_: list = []  # caller names
    use_ok = None

    def setup_layouts(self):
        c = self.cfg
        self.ispec, self.ospec = c.get("ilay") or [], c.get("olay") or []
        self.il, self.ol = flat(self.ispec), flat(self.ospec)
        self.ilm, self.olm = mlayout(self.ispec), mlayout(self.ospec)

    def setup_common(self):
        self.sweep = 0
        self.seen_patterns: set = set()
        self.prev_en: dict = {}
        self.prev_req = 0
        kind = self.cfg["kind"]
        self.hit(f"kind_{kind}")
        if self.cfg.get("factory"):
            self.hit("built_by_factory")
            self.hit(f"factory_{kind}")
        lv = list(self.ol) + (list(self.il) if kind != "collector" else [])
        for ols in getattr(self, "ols", []):
            lv += ols
        if kind != "collector" and not self.il:
            self.hit("empty_input_layout")
        if not self.ol:
            self.hit("empty_output_layout")
        if any(s for _, _, s in lv):
            self.hit("signed_field")
        if any("." in p for p, _, _ in lv):
            self.hit("nested_field")
        if any(w >= 33 for _, w, _ in lv):
            self.hit("wide_field")
        if any(w == 1 for _, w, _ in lv):
            self.hit("one_bit_field")
        if len(self.il) == 1 or len(self.ol) == 1:
            self.hit("single_field_layout")
        if len(self.il) >= 3 or len(self.ol) >= 3:
            self.hit("many_field_layout")

    # -- building ---------------------------------------------------------------------------
    def ports(self, name, ad):
        self.add_input(f"{name}.en", ad.en)
        for path, sig in leaves(ad.data_in):
            self.add_input(f"{name}.ret.{path}", sig)
        self.add_obs(f"{name}.done", ad.done)
        for path, sig in leaves(ad.data_out):
            self.add_obs(f"{name}.arg.{path}", sig)

    @staticmethod
    def vk(k, spec):
        """The rejected value, if the stub can validate at all (first field of the argument is a scalar)."""
        return k if (k is not None and scalar_first(spec)) else None

    def stub(self, name, ispec, ospec, k=None):
        """An existing target method (what the `create` factories are given)."""
        k = self.vk(k, ispec)
        if k is None:
            return self.callee(name, None, i=mlayout(ispec), o=mlayout(ospec)).iface
        ad = VStub(mlayout(ispec), mlayout(ospec), k, name=name)
        self.top.add(f"vad_{name}", ad)
        self.ports(name, ad)
        return ad.iface

    def bind(self, name, method, k=None, ispec=None):
        """Define a method the transformer requires."""
        k = self.vk(k, ispec)
        if k is None:
            self.callee(name, method)
        else:
            self.vcallee(name, method, k)

    def add_dut(self):
        if self.cfg.get("use"):
            self.top.add("dut", UseWrap(self.dut, self))
            self.hit("built_with_transformer_use")
        else:
            self.top.add("dut", self.dut)

    def check_use(self):
        if self.cfg.get("use"):
            self.expect(self.use_ok is True, "use-returned-other-method",
                        "Transformer.use(m) did not return the method created by the transformer")

    def post_elab(self, tm):
        self.check_use()
        return super().post_elab(tm)

    # -- stimulus ---------------------------------------------------------------------------
    def phase(self, cyc):
        cur = self.cfg["plan"][0]
        for ent in self.cfg["plan"]:
            if ent[0] <= cyc:
                cur = ent
            else:
                break
        return cur[1], cur[2], cur[0]

    def readiness(self, rng, cyc, n):
        kind, p, start = self.phase(cyc)
        rel = cyc - start
        if kind == "sweep":
            pat = self.sweep % (1 << n)
            self.sweep += 1
            return [(pat >> j) & 1 for j in range(n)]
        if kind == "allnot":
            return [0] * n
        if kind == "allready":
            return [1] * n
        if kind == "flap":
            sel = (start * 7 + 3) % (1 << n) or 1  # which targets flap; the others stay ready
            return [((cyc + j) & 1) if (sel >> j) & 1 else 1 for j in range(n)]
        if kind == "drop":
            # all ready first, then one target after the other drops (rotating start) and stays down
            rot = start % n
            return [int(rel < 2 + 2 * ((j + rot) % n)) for j in range(n)]
        if kind == "drain":
            return [0] * n
        if kind == "idle":
            return [int(rng.random() < 0.5) for _ in range(n)]
        return [int(rng.random() < p) for _ in range(n)]

    def request(self, rng, cyc):
        kind, p, _ = self.phase(cyc)
        if kind == "idle":
            return int(rng.random() < 0.05)
        if kind == "drain":
            return 1
        return int(rng.random() < self.cfg["pcall"])

    def fill(self, rng, stim, prefix, lv):
        small = rng.random() < 0.12  # all fields small: equal values, values a validating stub rejects
        for p, w, s in lv:
            stim[f"{prefix}.{p}"] = rndv(rng, w, s, small)

    def vals(self, d, prefix, lv):
        return tuple(d.get(f"{prefix}.{p}", 0) for p, _, _ in lv)

    def dvals(self, d, prefix, lv):
        return {p: d.get(f"{prefix}.{p}", 0) for p, _, _ in lv}

    def wide_cov(self, values, lv):
        """A full-width value travelled: the top bit of a field wider than 32 bits was set."""
        for v, (_, w, s) in zip(values, lv):
            if w >= 33 and (v < 0 or v >> (w - 1)):
                self.hit("wide_value_with_top_bit_set")
                return

    def readiness_cov(self, stim, req):
        """Fault kinds that fired this cycle, from the applied stimulus alone (replay safe)."""
        en = [stim.get(f"{t}.en", 0) for t in self.targets]
        n = len(en)
        if req:
            pat = sum(b << j for j, b in enumerate(en))
            if pat not in self.seen_patterns:
                self.seen_patterns.add(pat)
                if len(self.seen_patterns) == (1 << n):
                    self.hit("all_patterns_swept")
            if not any(en):
                self.hit("all_not_ready_while_requesting")
            if self.prev_req:
                dropped = [j for j in range(n) if self.prev_en.get(j) and not en[j]]
                if dropped:
                    self.hit("readiness_dropped_while_requesting")
                flapped = [j for j in range(n) if self.prev2_en.get(j) == en[j] and self.prev_en.get(j) != en[j]]
                if flapped and self.prev2_req:
                    self.hit("flapping_target")
        self.prev2_en, self.prev2_req = self.prev_en, self.prev_req
        self.prev_en, self.prev_req = dict(enumerate(en)), req
        return en

    prev2_en: dict = {}
    prev2_req = 0

    def caller_ready_check(self, c, stim, obs, ready, why, judge="both", count=None):
        """Rules 2 and 3: readiness via runnable while requesting; done => en & ready; blocked only counted.

        judge: which direction of `callable == ready` the statement gives for this transformer --
        "both"; "refusal-counted" (callable although not ready is judged, a refusal although ready is
        only counted under `count`); "none" (both directions only counted).  `done => en & ready` is
        judged in every mode.  ready None: nothing is known about this cycle."""
        en = stim.get(f"{c}.en", 0)
        done = obs[f"{c}.done"]
        if en and ready is not None:
            run = obs[f"{c}.runnable"]
            if judge == "both" or (judge == "refusal-counted" and not ready):
                self.expect(run == int(ready), "ready-mismatch",
                            f"{c}: callable={run} expected {int(ready)} ({why})", port=c)
            elif run != int(ready):
                self.hit(count if ready else f"{count}_inverse")
        self.expect(not done or (en and ready is not False), "ran-when-not-callable",
                    f"{c}: en={en} ready={ready} done={done} ({why})", port=c)
        if en and ready and not done:
            self.hit("blocked_though_ready")
        return en, done


# ------------------------------------------------------------------------------------------------
# ConnectTrans / CrossbarConnectTrans


class ConnectScen(Base):
    def build(self):
        from transactron.lib import ConnectTrans

        self.setup_layouts()
        # optionally a connected method validates its argument (rejects first field == K): the transfer then
        # happens exactly when both are ready *and* accept what the other one returns
        val = self.cfg.get("val") or [None, None]
        self.val = [self.vk(val[0], self.ispec), self.vk(val[1], self.ospec)]
        if self.cfg.get("factory"):
            m1 = self.stub("m1", self.ispec, self.ospec, self.val[0])  # m1 takes il, returns ol
            m2 = self.stub("m2", self.ospec, self.ispec, self.val[1])  # m2 takes ol, returns il
            self.dut = ConnectTrans.create(m1, m2)
            self.top.add("dut", self.dut)
        else:
            self.dut = ConnectTrans(self.ilm, self.olm)
            self.top.add("dut", self.dut)
            self.bind("m1", self.dut.method1, self.val[0], self.ispec)
            self.bind("m2", self.dut.method2, self.val[1], self.ospec)
        self.targets = ["m1", "m2"]
        self.setup_common()
        return self.top

    def stimulus(self, rng, cyc):
        stim = {}
        e = self.readiness(rng, cyc, 2)
        stim["m1.en"], stim["m2.en"] = e
        self.fill(rng, stim, "m1.ret", self.ol)
        self.fill(rng, stim, "m2.ret", self.il)
        return stim

    def check(self, cyc, stim, obs):
        e1, e2 = self.readiness_cov(stim, 1)
        d1, d2 = obs["m1.done"], obs["m2.done"]
        ok = 1
        if self.val[0] is not None:
            ok &= int(self.vals(stim, "m2.ret", self.il)[0] != self.val[0])
        if self.val[1] is not None:
            ok &= int(self.vals(stim, "m1.ret", self.ol)[0] != self.val[1])
        if not ok and e1 and e2:
            self.hit("connect_refused_by_validate_arguments")
        self.expect(d1 == d2 == (e1 & e2 & ok), "connect-run-mismatch",
                    f"ready=({e1},{e2}) arguments accepted={ok} but executed=({d1},{d2}): a transfer happens exactly when both can run")
        if d1:
            self.hit("transfer")
            self.expect(self.vals(obs, "m1.arg", self.il) == self.vals(stim, "m2.ret", self.il), "data-mismatch",
                        f"method1 got {self.vals(obs, 'm1.arg', self.il)}, method2 returned {self.vals(stim, 'm2.ret', self.il)}")
            self.expect(self.vals(obs, "m2.arg", self.ol) == self.vals(stim, "m1.ret", self.ol), "data-mismatch",
                        f"method2 got {self.vals(obs, 'm2.arg', self.ol)}, method1 returned {self.vals(stim, 'm1.ret', self.ol)}")
            self.wide_cov(self.vals(obs, "m1.arg", self.il) + self.vals(obs, "m2.arg", self.ol), self.il + self.ol)
        self.visit(("connect", e1, e2, d1), nontrivial=bool(e1 or e2))


class CrossbarScen(Base):
    def build(self):
        from transactron.lib import CrossbarConnectTrans

        c = self.cfg
        self.setup_layouts()
        self.n1, self.n2 = c["n1"], c["n2"]
        self.an = [f"a{i}" for i in range(self.n1)]
        self.bn = [f"b{j}" for j in range(self.n2)]
        xv = c.get("xval") or [[], []]
        # ka[i]: methods1[i] rejects an argument (= what a methods2 returned) whose first field is ka[i]
        self.ka = [self.vk(xv[0][i] if i < len(xv[0]) else None, self.ispec) for i in range(self.n1)]
        self.kb = [self.vk(xv[1][j] if j < len(xv[1]) else None, self.ospec) for j in range(self.n2)]
        if c.get("factory"):
            ms1 = [self.stub(n, self.ispec, self.ospec, self.ka[i]) for i, n in enumerate(self.an)]
            ms2 = [self.stub(n, self.ospec, self.ispec, self.kb[j]) for j, n in enumerate(self.bn)]
            # "Method | Iterable[Method]": a single method may be passed as it is
            self.dut = CrossbarConnectTrans.create(ms1[0] if self.n1 == 1 else ms1, ms2[0] if self.n2 == 1 else ms2)
            self.top.add("dut", self.dut)
        else:
            self.dut = CrossbarConnectTrans(self.n1, self.n2, self.ilm, self.olm)
            self.top.add("dut", self.dut)
            for i, n in enumerate(self.an):
                self.bind(n, self.dut.methods1[i], self.ka[i], self.ispec)
            for j, n in enumerate(self.bn):
                self.bind(n, self.dut.methods2[j], self.kb[j], self.ospec)
        self.targets = self.an + self.bn
        self.setup_common()
        if any(k is not None for k in self.ka + self.kb):
            self.hit("crossbar_with_validating_methods")
        return self.top

    def stimulus(self, rng, cyc):
        stim = {}
        e = self.readiness(rng, cyc, self.n1 + self.n2)
        for k, t in enumerate(self.targets):
            stim[f"{t}.en"] = e[k]
        # returned data: port index in the low bits of the first field, so that equal values of two
        # ports in one cycle (which would only make the matching ambiguous) are rare
        for names, lv in ((self.an, self.ol), (self.bn, self.il)):
            for i, n in enumerate(names):
                self.fill(rng, stim, f"{n}.ret", lv)
                if lv:
                    p, w, s = lv[0]
                    hi = 0 if rng.random() < 0.2 else rng.getrandbits(w)
                    stim[f"{n}.ret.{p}"] = canon((hi << 2) | i, w, s)
        return stim

    def check(self, cyc, stim, obs):
        en = self.readiness_cov(stim, 1)
        ea, eb = en[: self.n1], en[self.n1:]
        da = [obs[f"{n}.done"] for n in self.an]
        db = [obs[f"{n}.done"] for n in self.bn]
        for k, n in enumerate(self.targets):
            self.expect(not (da + db)[k] or en[k], "ran-when-not-callable", f"{n} executed while not ready", port=n)
        A = [i for i in range(self.n1) if da[i]]
        B = [j for j in range(self.n2) if db[j]]
        self.expect(len(A) == len(B), "crossbar-not-a-matching",
                    f"methods1 executed {A}, methods2 executed {B}: every transfer uses one method of each side once")
        # a method never executes with an argument its validate_arguments rejects
        for i in A:
            if self.ka[i] is not None:
                got = self.vals(obs, f"a{i}.arg", self.il)[0]
                self.expect(got != self.ka[i], "ran-with-rejected-argument",
                            f"a{i} executed with first field {got}, which its validate_arguments rejects", port=f"a{i}")
        for j in B:
            if self.kb[j] is not None:
                got = self.vals(obs, f"b{j}.arg", self.ol)[0]
                self.expect(got != self.kb[j], "ran-with-rejected-argument",
                            f"b{j} executed with first field {got}, which its validate_arguments rejects", port=f"b{j}")
        # the set of transfers: a bijection between executed methods consistent with the data seen
        ok = None
        for perm in permutations(B):
            if all(self.vals(obs, f"a{i}.arg", self.il) == self.vals(stim, f"b{j}.ret", self.il)
                   and self.vals(obs, f"b{j}.arg", self.ol) == self.vals(stim, f"a{i}.ret", self.ol)
                   for i, j in zip(A, perm)):
                ok = list(zip(A, perm))
                break
        self.expect(ok is not None, "data-mismatch",
                    f"no pairing of executed methods1 {A} with methods2 {B} explains the arguments they received")

        def compat(i, j):  # both methods accept what the other one returns: the pair "can run"
            if self.ka[i] is not None and self.vals(stim, f"b{j}.ret", self.il)[0] == self.ka[i]:
                return False
            if self.kb[j] is not None and self.vals(stim, f"a{i}.ret", self.ol)[0] == self.kb[j]:
                return False
            return True

        ready_pairs = [(i, j) for i in range(self.n1) for j in range(self.n2) if ea[i] and eb[j]]
        if any(not compat(i, j) for i, j in ready_pairs):
            self.hit("crossbar_pair_refused_by_validate_arguments")
        if self.cfg["sched"] == "eager":
            left = [(i, j) for i, j in ready_pairs if not da[i] and not db[j] and compat(i, j)]
            self.expect(not left, "crossbar-not-maximal",
                        f"ready pairs {left} left although both methods were unused (ready1={ea} ready2={eb} transfers={ok})")
        elif any(compat(i, j) for i, j in ready_pairs) and not A:
            self.hit("blocked_though_ready")
        if len(A) >= 2:
            self.hit("crossbar_multi_transfer")
        if A and sum(ea) != sum(eb):
            self.hit("crossbar_contention")
        if A:
            self.hit("transfer")
            for i in A:
                self.wide_cov(self.vals(obs, f"a{i}.arg", self.il), self.il)
        self.visit(("xbar", tuple(en), tuple(ok)), nontrivial=any(ea) and any(eb))


# ------------------------------------------------------------------------------------------------
# one target: MethodMap, MethodFilter, NonexclusiveWrapper


def i_transform(kind, k, il, ilm):
    """(what the library is given, leaves and method layout of the transformed method,
    python model: argument leaf dict -> target argument leaf dict)."""
    n = len(il)
    if kind == "none" or not n:
        return None, il, ilm, lambda d: dict(d)
    if kind == "addc":
        p0, w0, s0 = il[0]
        return ((ilm, lambda m, x: nest({p: (fitl(getp(x, p) + k, il[0]) if p == p0 else getp(x, p)) for p, _, _ in il})),
                il, ilm, lambda d: {**d, p0: canon(d[p0] + k, w0, s0)})
    if kind == "swap":  # rotation of the fields (two fields: a swap)
        return ((ilm, lambda m, x: nest({il[j][0]: fitl(getp(x, il[(j + 1) % n][0]), il[j]) for j in range(n)})),
                il, ilm, lambda d: {il[j][0]: canon(d[il[(j + 1) % n][0]], il[j][1], il[j][2]) for j in range(n)})
    if kind == "pack":
        offs, o = [], 0
        for _, w, _ in il:
            offs.append(o)
            o += w
        ml = [("x", o)]
        return ((ml, lambda m, x: nest({p: (x["x"][of:of + w].as_signed() if s else x["x"][of:of + w])
                                        for (p, w, s), of in zip(il, offs)})),
                [("x", o, False)], ml, lambda d: {p: canon(d["x"] >> of, w, s) for (p, w, s), of in zip(il, offs)})
    raise ValueError(kind)


def o_transform(kind, k, ol, olm):
    n = len(ol)
    if kind == "none" or not n:
        return None, ol, olm, lambda d: dict(d)
    if kind == "xorc":
        p0, w0, s0 = ol[0]
        kk = k & mask(w0)
        return ((olm, lambda m, x: nest({p: (fitl(getp(x, p) ^ kk, ol[0]) if p == p0 else getp(x, p)) for p, _, _ in ol})),
                ol, olm, lambda d: {**d, p0: canon(d[p0] ^ kk, w0, s0)})
    if kind == "swap":
        return ((olm, lambda m, x: nest({ol[j][0]: fitl(getp(x, ol[(j + 1) % n][0]), ol[j]) for j in range(n)})),
                ol, olm, lambda d: {ol[j][0]: canon(d[ol[(j + 1) % n][0]], ol[j][1], ol[j][2]) for j in range(n)})
    if kind == "sum":
        wy = max(w for _, w, _ in ol) + 2
        ml = [("y", wy)]
        return ((ml, lambda m, x: {"y": sum(getp(x, p) for p, _, _ in ol)}), [("y", wy, False)], ml,
                lambda d: {"y": sum(d.values()) & mask(wy)})
    raise ValueError(kind)


class MapScen(Base):
    def build(self):
        from transactron.lib import MethodMap

        c = self.cfg
        self.setup_layouts()
        self.im = c["itr"] == "method"
        self.om = c["otr"] == "method"
        if self.im:  # "Alternatively, a Method can be passed": it gets the argument record, returns the mapped one
            mspec = c.get("milay") or []
            self.mil, self.milm = flat(mspec), mlayout(mspec)
            it = (self.milm, self.stub("im", mspec, self.ispec))
            self.hit("map_input_transform_is_method")
        else:
            it, self.mil, self.milm, self.ipy = i_transform(c["itr"], c["k"], self.il, self.ilm)
        if self.om:
            mspec = c.get("molay") or []
            self.mol, self.molm = flat(mspec), mlayout(mspec)
            ot = (self.molm, self.stub("om", self.ospec, mspec))
            self.hit("map_output_transform_is_method")
        else:
            ot, self.mol, self.molm, self.opy = o_transform(c["otr"], c["k"], self.ol, self.olm)
        self.tk = self.vk(c.get("tval"), self.ispec)
        if c.get("factory"):
            tgt = self.stub("t", self.ispec, self.ospec, self.tk)
            self.dut = MethodMap.create(tgt, i_transform=it, o_transform=ot)
            self.add_dut()
        else:
            self.dut = MethodMap(self.ilm, self.olm, i_transform=it, o_transform=ot)
            self.add_dut()
            self.bind("t", self.dut.target, self.tk, self.ispec)
        self.caller("c", self.dut.method)
        self.targets = ["t"]
        self.setup_common()
        return self.top

    def stimulus(self, rng, cyc):
        stim = {"t.en": self.readiness(rng, cyc, 1)[0], "c.en": self.request(rng, cyc)}
        self.fill(rng, stim, "t.ret", self.ol)
        self.fill(rng, stim, "c.i", self.mil)
        if self.im:
            stim["im.en"] = int(rng.random() < 0.9)
            self.fill(rng, stim, "im.ret", self.il)
        elif self.tk is not None and self.cfg["itr"] == "addc" and rng.random() < 0.12:
            p, w, s = self.il[0]  # aim at the value the validating target rejects
            stim[f"c.i.{p}"] = canon(self.tk - self.cfg["k"], w, s)
        if self.om:
            stim["om.en"] = int(rng.random() < 0.9)
            self.fill(rng, stim, "om.ret", self.mol)
        return stim

    def check(self, cyc, stim, obs):
        (te,) = self.readiness_cov(stim, stim.get("c.en", 0))
        arg = self.dvals(stim, "c.i", self.mil)
        ret = self.dvals(stim, "t.ret", self.ol)
        ime = ome = 1
        if self.im:
            ime = stim.get("im.en", 0)
            want = self.dvals(stim, "im.ret", self.il)
        else:
            want = self.ipy(arg)
        if self.om:
            ome = stim.get("om.en", 0)
            wanto = self.dvals(stim, "om.ret", self.mol)
        else:
            wanto = self.opy(ret)
        acc = self.tk is None or want[self.il[0][0]] != self.tk
        if te and ime and ome and not acc and stim.get("c.en", 0):
            self.hit("map_target_rejected_argument")
        # the statement gives no readiness of the map: only `done => everything it calls can run` is judged
        en, done = self.caller_ready_check("c", stim, obs, bool(te and ime and ome and acc),
                                           f"target ready={te} accepts mapped argument={int(acc)} transform methods ready=({ime},{ome})",
                                           judge="none", count="map_refused_though_target_ready")
        td = obs["t.done"]
        self.expect(td == done, "target-call-mismatch", f"map executed={done} but target executed={td}")
        for nm, on in (("im", self.im), ("om", self.om)):
            if on:
                self.expect(obs[f"{nm}.done"] == done, "transform-method-call-mismatch",
                            f"map executed={done} but the transform method {nm} executed={obs[f'{nm}.done']}")
        if done:
            self.hit("call")
            if self.im:
                gota = self.dvals(obs, "im.arg", self.mil)
                self.expect(gota == arg, "arg-mismatch", f"input transform method received {gota}, call argument was {arg}")
            got = self.dvals(obs, "t.arg", self.il)
            self.expect(got == want, "arg-mismatch", f"target received {got}, input map of {arg} is {want}")
            if self.om:
                gotr = self.dvals(obs, "om.arg", self.ol)
                self.expect(gotr == ret, "result-mismatch", f"output transform method received {gotr}, target returned {ret}")
            goto = self.dvals(obs, "c.o", self.mol)
            self.expect(goto == wanto, "result-mismatch", f"caller received {goto}, output map of {ret} is {wanto}")
            self.wide_cov(tuple(got.values()) + tuple(ret.values()), self.il + self.ol)
        self.visit(("map", en, te, ime, ome, int(acc), done), nontrivial=bool(en))


def filter_cond(kind, k, il):
    if kind == "const":
        from amaranth import C

        return (lambda m, x: C(k & 1, 1)), (lambda d: k & 1)
    p0, w0, s0 = il[0]
    pl, wl, sl = il[-1]
    if kind == "eq2" and (len(il) < 2 or w0 < 2 or wl < 2):
        kind = "bit0"
    if kind == "bit0":
        return (lambda m, x: getp(x, p0)[0]), (lambda d: d[p0] & 1)
    if kind == "eq2":
        return (lambda m, x: getp(x, p0)[:2] == getp(x, pl)[:2]), (lambda d: int((d[p0] & 3) == (d[pl] & 3)))
    if kind == "lt":
        kk = k & mask(w0)
        return (lambda m, x: getp(x, p0) < kk), (lambda d: int(d[p0] < kk))
    if kind == "nonzero":  # a multi-bit value: "non-zero return value is interpreted as true"
        return (lambda m, x: getp(x, pl)), (lambda d: int(d[pl] != 0))
    raise ValueError(kind)


class FilterScen(Base):
    def build(self):
        from transactron.lib import MethodFilter

        c = self.cfg
        self.setup_layouts()
        self.uc = bool(c["use_condition"])
        self.cm = c["cond"] == "method" and not self.uc
        kind = c["cond"]
        if kind == "method" and self.uc:
            kind = "const"
        if not self.il and not self.cm:
            kind = "const"
        if self.cm:  # "a Method can be passed as a condition": gets the argument record, returns the condition
            self.cw = c.get("cw", 1)
            cf = self.stub("cm", self.ispec, [["c", self.cw]])
            self.hit("filter_condition_is_method")
        else:
            cf, self.cpy = filter_cond(kind, c["k"], self.il)
        self.default = {p: 0 for p, _, _ in self.ol}
        dflt = None
        if c["default"] is not None:
            self.default = {p: canon(v, w, s) for (p, w, s), v in zip(self.ol, c["default"])}
            dflt = nest(self.default)
        self.tk = self.vk(c.get("tval"), self.ispec)
        if c.get("factory"):  # built through the documented factory around an existing target method
            tgt = self.stub("t", self.ispec, self.ospec, self.tk)
            self.dut = MethodFilter.create(tgt, cf, dflt, use_condition=self.uc)
            self.add_dut()
        else:
            self.dut = MethodFilter(self.ilm, self.olm, cf, dflt, use_condition=self.uc)
            self.add_dut()
            self.bind("t", self.dut.target, self.tk, self.ispec)
        self.caller("c", self.dut.method)
        self.targets = ["t"]
        self.setup_common()
        return self.top

    def stimulus(self, rng, cyc):
        stim = {"t.en": self.readiness(rng, cyc, 1)[0], "c.en": self.request(rng, cyc)}
        self.fill(rng, stim, "t.ret", self.ol)
        self.fill(rng, stim, "c.i", self.il)
        if len(self.il) >= 2 and rng.random() < 0.3:  # make "eq2" / "lt" / "nonzero" flip often enough
            (p0, _, _), (pl, wl, sl) = self.il[0], self.il[-1]
            stim[f"c.i.{pl}"] = canon(stim[f"c.i.{p0}"], wl, sl) if rng.random() < 0.5 else 0
        if self.tk is not None and rng.random() < 0.12:
            p, w, s = self.il[0]  # aim at the value the validating target rejects
            stim[f"c.i.{p}"] = canon(self.tk, w, s)
        if self.cm:
            stim["cm.en"] = int(rng.random() < 0.9)
            stim["cm.ret.c"] = 0 if rng.random() < 0.45 else max(1, rng.getrandbits(self.cw))
        return stim

    def check(self, cyc, stim, obs):
        (te,) = self.readiness_cov(stim, stim.get("c.en", 0))
        arg = self.dvals(stim, "c.i", self.il)
        cme = 1
        if self.cm:
            cme = stim.get("cm.en", 0)
            cond = int(stim.get("cm.ret.c", 0) != 0)
        else:
            cond = int(self.cpy(arg))
        acc = self.tk is None or arg[self.il[0][0]] != self.tk
        tready = bool(te and acc)  # the target can run with this argument
        judge = "refusal-counted"
        if not cme:
            ready = False  # the condition is computed by calling a method that cannot run
        elif cond:
            # the target has to be called, so it has to be callable; that the filter *is* callable when
            # the target is ready is not stated -> a refusal is counted
            ready = tready
        elif self.uc:
            ready, judge = True, "both"  # "not blocking on the target when use_condition is set"
        else:
            ready = None if not tready else True  # blocking on a non-ready target is left open by the statement
        en, done = self.caller_ready_check("c", stim, obs, ready,
                                           f"cond={cond} target ready={te} accepts argument={int(acc)} use_condition={self.uc}"
                                           + (f" condition method ready={cme}" if self.cm else ""),
                                           judge=judge, count="filter_refused_though_target_ready")
        if en and cond and te and not acc:
            self.hit("filter_target_rejected_argument")
        td = obs["t.done"]
        self.expect(td == (done & cond), "target-call-mismatch",
                    f"filter executed={done} cond={cond} but target executed={td}: target is called exactly when the condition holds")
        if self.cm:
            self.expect(obs["cm.done"] == done, "condition-method-call-mismatch",
                        f"filter executed={done} but the condition method executed={obs['cm.done']}")
            if done:
                gota = self.dvals(obs, "cm.arg", self.il)
                self.expect(gota == arg, "arg-mismatch", f"condition method received {gota}, call argument was {arg}")
        got = self.dvals(obs, "c.o", self.ol)
        if done and cond:
            self.hit("filter_passed")
            targ = self.dvals(obs, "t.arg", self.il)
            self.expect(targ == arg, "arg-mismatch", f"target received {targ}, call argument was {arg}")
            ret = self.dvals(stim, "t.ret", self.ol)
            self.expect(got == ret, "result-mismatch", f"caller received {got}, target returned {ret}")
            self.wide_cov(tuple(targ.values()) + tuple(ret.values()), self.il + self.ol)
        if done and not cond:
            self.hit("filter_default_returned")
            # "returning the default"; "If omitted, zero is returned"
            self.expect(got == self.default, "default-mismatch",
                        f"condition false: caller received {got}, default is {self.default}"
                        + (" (default omitted: zero)" if self.cfg["default"] is None else ""))
            if self.cfg["default"] is None and self.ol:
                self.hit("filter_omitted_default_judged")
            if not te:
                self.hit("filter_cond_false_target_not_ready_ran")
        if en and not cond and not te and not done and not self.uc:
            self.hit("filter_blocked_by_unready_target_without_use_condition")
        self.visit(("filter", en, te, cond, cme, int(acc), done), nontrivial=bool(en))

    def post_elab(self, tm):
        if not self.uc:
            return super().post_elab(tm)
        self.check_use()
        # use_condition: the manager merges the calling transaction with each branch of `condition`, so the
        # caller "could run" iff one of the merged transactions (which call the caller's body as a method) can
        from amaranth import Cat

        at = self.callers["c"]
        ts = [t for t in tm.transactions if any(getattr(mm._body, "owner", None) is at for mm in t._body.method_calls)]
        if not ts:  # the filter was not built with a condition() block: the caller's own transaction decides
            return CompScenario.post_elab(self, tm)
        self.add_obs("c.runnable", Cat(t.runnable for t in ts).any())


class NonexScen(Base):
    def build(self):
        from transactron.lib import NonexclusiveWrapper

        c = self.cfg
        self.setup_layouts()
        # no validating target here: the wrapper's argument is selected by the `run` bits of its callers, so a
        # validate_arguments predicate behind it depends on the very grant it decides (a combinational loop of
        # the core, C10's business: the design oscillates and cannot be simulated)
        if c.get("factory"):
            tgt = self.stub("t", self.ispec, self.ospec)
            self.dut = NonexclusiveWrapper.create(tgt)
            self.add_dut()
        else:
            self.dut = NonexclusiveWrapper(self.ilm, self.olm)
            self.add_dut()
            self.bind("t", self.dut.target)
        self.cn = [f"c{k}" for k in range(c["ncallers"])]
        for n in self.cn:
            self.caller(n, self.dut.method)
        self.targets = ["t"]
        self.setup_common()
        return self.top

    def stimulus(self, rng, cyc):
        stim = {"t.en": self.readiness(rng, cyc, 1)[0]}
        self.fill(rng, stim, "t.ret", self.ol)
        req = self.request(rng, cyc)
        # the wrapper is meant for callers that never call together; simultaneous calls are produced
        # at a low rate only to see that callers do not exclude each other: all of them, or any subset
        who = rng.randrange(len(self.cn))
        both = rng.random() < 0.1
        sub = rng.getrandbits(len(self.cn)) if rng.random() < 0.12 else 0
        for k, n in enumerate(self.cn):
            stim[f"{n}.en"] = int(req and (k == who or both or (sub >> k) & 1))
            self.fill(rng, stim, f"{n}.i", self.il)
        return stim

    def check(self, cyc, stim, obs):
        reqs = [stim.get(f"{n}.en", 0) for n in self.cn]
        (te,) = self.readiness_cov(stim, int(any(reqs)))
        dones = []
        # "forwards calls": a lone caller is callable iff the target is; that several callers of one cycle
        # are all callable is not stated -> a refusal among simultaneous callers is counted
        judge = "refusal-counted" if sum(reqs) >= 2 else "both"
        for n in self.cn:
            _, d = self.caller_ready_check(n, stim, obs, bool(te), f"target ready={te}", judge=judge,
                                           count="nonexclusive_simultaneous_caller_refused")
            dones.append(d)
        td = obs["t.done"]
        self.expect(td == int(any(dones)), "target-call-mismatch", f"callers executed={dones} but target executed={td}")
        ret = self.dvals(stim, "t.ret", self.ol)
        for n, d in zip(self.cn, dones):
            if d:
                got = self.dvals(obs, f"{n}.o", self.ol)
                self.expect(got == ret, "result-mismatch", f"{n} received {got}, target returned {ret}", port=n)
        if sum(dones) == 1:
            self.hit("call")
            n = self.cn[dones.index(1)]
            arg = self.dvals(stim, f"{n}.i", self.il)
            targ = self.dvals(obs, "t.arg", self.il)
            self.expect(targ == arg, "arg-mismatch", f"target received {targ}, {n} called with {arg}", port=n)
            self.wide_cov(tuple(targ.values()) + tuple(ret.values()), self.il + self.ol)
        if sum(dones) >= 2:
            self.hit("nonexclusive_simultaneous_callers")
            if sum(dones) < len(self.cn):
                self.hit("nonexclusive_proper_subset_of_callers")
        self.visit(("nonex", tuple(reqs), te, tuple(dones)), nontrivial=any(reqs))


# ------------------------------------------------------------------------------------------------
# many targets: MethodProduct, MethodTryProduct, Collector


class ProductScen(Base):
    try_product = False

    def setup_targets(self):
        c = self.cfg
        self.setup_layouts()
        self.n = c["n"]
        specs = c.get("olays") or []
        self.ospecs = [specs[j] if j < len(specs) else self.ospec for j in range(self.n)]
        self.ols = [flat(s) for s in self.ospecs]
        if any(s != self.ospecs[0] for s in self.ospecs):
            self.hit("product_targets_with_different_layouts")
        tv = c.get("tval") or []
        self.tks = [self.vk(tv[j] if j < len(tv) else None, self.ispec) for j in range(self.n)]
        self.targets = [f"t{j}" for j in range(self.n)]

    def build_with(self, cls, comb):
        if self.cfg.get("factory"):
            self.tms = [self.stub(t, self.ispec, self.ospecs[j], self.tks[j]) for j, t in enumerate(self.targets)]
            self.dut = cls.create(self.tms, comb)
            self.add_dut()
        else:
            self.dut = cls(self.ilm, [mlayout(s) for s in self.ospecs], comb)
            self.add_dut()
            self.tms = list(self.dut.targets)
            for j, t in enumerate(self.targets):
                self.bind(t, self.dut.targets[j], self.tks[j], self.ispec)
        self.caller("c", self.dut.method)

    def build(self):
        from transactron.lib import MethodProduct

        c = self.cfg
        self.setup_targets()
        comb = None
        self.comb = c["combiner"]
        if self.comb == "sumxor" and not all(self.ols):
            self.comb = "last"
        self.mol = self.ols[0]  # "by default, the return value of the first of the target methods"
        if self.comb == "sumxor":
            wy = max(lv[0][1] for lv in self.ols) + 2
            wz = max(lv[-1][1] for lv in self.ols)
            self.mol = [("y", wy, False), ("z", wz, False)]
            ols = self.ols

            def fn(m, xs):
                y, z = 0, 0
                for x, lv in zip(xs, ols):
                    y, z = y + getp(x, lv[0][0]), z ^ getp(x, lv[-1][0])
                return {"y": fit(y, wy), "z": fit(z, wz)}

            comb = ([("y", wy), ("z", wz)], fn)
        elif self.comb == "last":
            self.mol = self.ols[-1]
            comb = (mlayout(self.ospecs[-1]), lambda m, xs: xs[-1])
        self.build_with(MethodProduct, comb)
        self.setup_common()
        return self.top

    def stimulus(self, rng, cyc):
        stim = {"c.en": self.request(rng, cyc)}
        e = self.readiness(rng, cyc, self.n)
        for j, t in enumerate(self.targets):
            stim[f"{t}.en"] = e[j]
            self.fill(rng, stim, f"{t}.ret", self.ols[j])
        self.fill(rng, stim, "c.i", self.il)
        if self.il and any(k is not None for k in self.tks) and rng.random() < 0.1:
            p, w, s = self.il[0]  # aim at a value one of the validating targets rejects
            stim[f"c.i.{p}"] = canon(rng.choice([k for k in self.tks if k is not None]), w, s)
        return stim

    def accepts(self, stim):
        if not self.il:
            return [True] * self.n
        first = stim.get(f"c.i.{self.il[0][0]}", 0)
        return [k is None or first != k for k in self.tks]

    def check(self, cyc, stim, obs):
        te = self.readiness_cov(stim, stim.get("c.en", 0))
        acc = self.accepts(stim)
        # "calls all targets": it cannot run unless all can run with the argument; that it can whenever all
        # are ready is not stated
        en, done = self.caller_ready_check("c", stim, obs, all(te) and all(acc), f"targets ready={te}, accept the argument={acc}",
                                           judge="refusal-counted", count="product_refused_though_all_targets_ready")
        td = [obs[f"{t}.done"] for t in self.targets]
        self.expect(all(d == done for d in td), "target-call-mismatch",
                    f"product executed={done} but targets executed={td}: all targets are called")
        if en and not all(te) and any(te):
            self.hit("product_blocked_by_some_target")
        if en and all(te) and not all(acc):
            self.hit("product_target_rejected_argument")
        if done:
            self.hit("call")
            arg = self.vals(stim, "c.i", self.il)
            for t in self.targets:
                self.expect(self.vals(obs, f"{t}.arg", self.il) == arg, "arg-mismatch",
                            f"{t} received {self.vals(obs, f'{t}.arg', self.il)}, call argument was {arg}", port=t)
            rets = [self.vals(stim, f"{t}.ret", lv) for t, lv in zip(self.targets, self.ols)]
            if self.comb == "sumxor":
                z = 0
                for r in rets:
                    z ^= r[-1]
                want = (sum(r[0] for r in rets) & mask(self.mol[0][1]), z & mask(self.mol[1][1]))
            elif self.comb == "last":
                want = rets[-1]
            else:
                want = rets[0]  # no combiner: the docstring names the first target's result
                self.hit("product_default_combiner_judged")
            got = self.vals(obs, "c.o", self.mol)
            self.expect(got == want, "result-mismatch", f"caller received {got}, expected {want} from target results {rets}"
                        + (" (no combiner: result of the first target)" if self.comb is None else ""))
            self.wide_cov(arg + got, self.il + self.mol)
        self.visit(("product", en, tuple(te), tuple(acc), done), nontrivial=bool(en))


class TryProductScen(ProductScen):
    def build(self):
        from transactron.lib import MethodTryProduct
        from amaranth import Cat, signed

        c = self.cfg
        self.setup_targets()
        comb = None
        self.mol = []
        self.report = c["combiner"] == "report"
        if self.report:
            ols = self.ols
            ml = [("succ", self.n)]
            for j, lv in enumerate(ols):
                ml += [(f"r{j}_{q}", signed(w) if s else w) for q, (_, w, s) in enumerate(lv)]

            def fn(m, xs):
                d = {"succ": Cat(s for s, _ in xs)}
                for j, ((_, x), lv) in enumerate(zip(xs, ols)):
                    for q, (p, _, _) in enumerate(lv):
                        d[f"r{j}_{q}"] = getp(x, p)
                return d

            comb = (ml, fn)
        self.build_with(MethodTryProduct, comb)
        self.rt = None
        if c.get("rival"):  # another transaction calls one of the targets directly and competes with the product for it
            self.rt = min(c.get("rival_t", 0), self.n - 1)
            self.caller("rv", self.tms[self.rt])
            if self.rt:
                self.hit("rival_on_other_than_first_target")
        self.setup_common()
        return self.top

    def stimulus(self, rng, cyc):
        stim = ProductScen.stimulus(self, rng, cyc)
        if self.rt is not None:
            stim["rv.en"] = int(rng.random() < 0.6)
            self.fill(rng, stim, "rv.i", self.il)
        return stim

    def check(self, cyc, stim, obs):
        te = self.readiness_cov(stim, stim.get("c.en", 0))
        acc = self.accepts(stim)
        rejecting = [j for j in range(self.n) if te[j] and not acc[j]]
        # "the methods which are not ready are not called": no readiness pattern blocks the product; whether a
        # ready target that rejects the argument does is not documented (counted)
        en, done = self.caller_ready_check("c", stim, obs, None if rejecting else True, f"targets ready={te}")
        if en and rejecting:
            self.hit("tryproduct_target_rejected_argument")
            self.hit("tryproduct_ran_beside_rejecting_target" if done else "tryproduct_blocked_by_rejecting_target")
        td = [obs[f"{t}.done"] for t in self.targets]
        te = [int(bool(e and a)) for e, a in zip(te, acc)]  # can run with this argument
        rv = bool(self.rt is not None and obs["rv.done"])
        if rv:
            # the target served the rival in this cycle: the product did not call it (whichever of the two gets a
            # contended target is the scheduler's choice) and must not report success for it
            rt, tn = self.rt, self.targets[self.rt]
            self.expect(td[rt] == 1, "target-call-mismatch", f"rival caller of target {rt} done, target {rt} not executed")
            self.expect(self.vals(obs, f"{tn}.arg", self.il) == self.vals(stim, "rv.i", self.il), "arg-mismatch",
                        f"target {rt} executed for the rival with another argument", port=tn)
            td = td[:rt] + [0] + td[rt + 1:]
            te = te[:rt] + [0] + te[rt + 1:]
            self.hit("rival_took_target_from_product" if done else "rival_alone")
        want = [int(bool(done and e)) for e in te]
        self.expect(td == want, "target-call-mismatch",
                    f"try-product executed={done}, targets able to run={te} but executed={td}: exactly the ready targets are called")
        if done:
            self.hit("call")
            if 0 < sum(te) < self.n:
                self.hit("tryproduct_partial")
            if not any(te):
                self.hit("tryproduct_none_ready")
            arg = self.vals(stim, "c.i", self.il)
            for t, d in zip(self.targets, td):
                if d:
                    self.expect(self.vals(obs, f"{t}.arg", self.il) == arg, "arg-mismatch",
                                f"{t} received {self.vals(obs, f'{t}.arg', self.il)}, call argument was {arg}", port=t)
            if self.report:
                succ = obs["c.o.succ"]
                self.expect(succ == sum(d << j for j, d in enumerate(td)), "success-report-mismatch",
                            f"reported success bits {succ:0{self.n}b} (bit j = target j), targets executed={td}")
                for j, t in enumerate(self.targets):
                    if td[j]:
                        got = tuple(obs[f"c.o.r{j}_{q}"] for q in range(len(self.ols[j])))
                        ret = self.vals(stim, f"{t}.ret", self.ols[j])
                        self.expect(got == ret, "result-mismatch", f"combiner saw {got} for {t}, which returned {ret}", port=t)
                        self.wide_cov(got, self.ols[j])
            else:
                self.hit("tryproduct_default_combiner_empty_result")
        self.visit(("try", en, tuple(te), done), nontrivial=bool(en))


class CollectorScen(Base):
    def build(self):
        from transactron.lib import Collector

        c = self.cfg
        self.setup_layouts()
        self.n = c["n"]
        self.targets = [f"t{j}" for j in range(self.n)]
        if c.get("factory"):
            tms = [self.stub(t, [], self.ospec) for t in self.targets]
            self.dut = Collector.create(tms)
            self.add_dut()
        else:
            self.dut = Collector(self.n, self.olm)
            self.add_dut()
            for j, t in enumerate(self.targets):
                self.callee(t, self.dut.targets[j])
        self.caller("c", self.dut.method)
        self.setup_common()
        self.pending: list = []  # taken from a target, not yet delivered
        self.ever: set = set()
        self.taken = self.delivered = 0
        self.still = 0
        self.quiet = 0  # trailing cycles in which the caller asked and no target offered anything
        self.tagw = self.ol[0][1]
        return self.top

    def stimulus(self, rng, cyc):
        stim = {"c.en": self.request(rng, cyc)}
        kind, p, _ = self.phase(cyc)
        if kind == "allnot" and rng.random() < 0.5:
            stim["c.en"] = 0  # let results pile up in front of a caller that does not ask
        e = self.readiness(rng, cyc, self.n)
        f0 = self.ol[0][0]
        for j, t in enumerate(self.targets):
            stim[f"{t}.en"] = e[j]
            self.fill(rng, stim, f"{t}.ret", self.ol)
            stim[f"{t}.ret.{f0}"] = (cyc * 4 + j + 1) & mask(self.tagw)  # unique tag of this (cycle, target) offer
        return stim

    def check(self, cyc, stim, obs):
        te = self.readiness_cov(stim, stim.get("c.en", 0))
        en = stim.get("c.en", 0)
        done = obs["c.done"]
        self.expect(not done or en, "ran-when-not-callable", "collector method executed without a request")
        now = []
        for j, t in enumerate(self.targets):
            d = obs[f"{t}.done"]
            self.expect(not d or te[j], "ran-when-not-callable", f"{t} executed while not ready", port=t)
            if d:
                v = self.vals(stim, f"{t}.ret", self.ol)
                self.premise(v[0] not in self.ever, "result tags are unique")
                self.ever.add(v[0])
                now.append(v)
        avail = self.pending + now
        if done:
            got = self.vals(obs, "c.o", self.ol)
            self.expect(got in avail, "delivered-unknown-or-duplicate",
                        f"collector returned {got}; taken and not yet delivered: {avail}")
            avail.remove(got)
            self.delivered += 1
            if got in now:
                self.hit("collector_forwarded_same_cycle")
            else:
                self.hit("collector_delivered_from_buffer")
            self.wide_cov(got, self.ol)
        if now and avail:
            self.hit("collector_buffered")  # a result taken in this cycle (or an older one) stays behind
        if sum(te) >= 2:
            self.hit("collector_contention")
        self.taken += len(now)
        moved = bool(now) or bool(done)
        self.pending = avail
        # loss: an undelivered result exists, the caller keeps asking, and nothing moves any more
        if en and not moved and self.pending:
            self.still += 1
        else:
            self.still = 0
        self.expect(self.still < STUCK, "result-lost",
                    f"results {self.pending} were taken from targets and are not delivered although the caller "
                    f"asked for {self.still} cycles in which nothing else moved")
        if en and not done and self.pending:
            self.hit("blocked_though_ready")
        self.quiet = self.quiet + 1 if (en and not any(te)) else 0
        if self.quiet and done:
            self.hit("collector_drained_while_targets_silent")
        self.visit(("coll", en, tuple(te), done, len(now), min(len(self.pending), 2)), nontrivial=bool(now) or bool(done))

    def finish(self):
        # the drain tail: for `quiet` cycles the caller asked and no target offered anything; the collector holds
        # at most one result per target (none, in fact, but that is not the statement's business)
        if self.quiet >= STUCK + self.n:
            self.hit("collector_drain_tail_judged")
            self.expect(not self.pending, "result-lost",
                        f"results {self.pending} were taken from targets and never delivered although the caller asked "
                        f"during the last {self.quiet} cycles, in which no target offered a result")
        if self.pending:
            self.hit("collector_buffered_at_end")
        self.notes["taken"] = self.taken
        self.notes["delivered"] = self.delivered


SCENS = {"connect": ConnectScen, "crossbar": CrossbarScen, "map": MapScen, "filter": FilterScen,
         "product": ProductScen, "tryproduct": TryProductScen, "nonexclusive": NonexScen, "collector": CollectorScen}


class Prop(PropBase):
    ID = "C18"
    tiers = {
        "quick": {"runs": 720, "selftest_runs": 4},
        "thorough": {"runs": 12000, "selftest_runs": 32},
    }
    rule = ("one run = one transformer kind (ConnectTrans, CrossbarConnectTrans 1-3x1-3, MethodMap, MethodFilter, "
            "MethodProduct, MethodTryProduct, NonexclusiveWrapper, Collector) in one configuration (built by constructor or "
            "by the create() factory around existing methods, added directly or through Transformer.use; layouts of 0-4 "
            "fields of 1-64 bits, signed and nested fields; 1-4 targets with equal or different result layouts; "
            "map/condition/combiner functions or Methods or the documented defaults; default, use_condition, validating "
            "targets, rival caller of any target, scheduler), driven for 60-200 cycles "
            "by a seeded phase plan over the targets' readiness (random / sweep of all patterns / all-not-ready / "
            "flapping / dropping one by one / all ready / idle caller; Collector: final drain tail); distinct = distinct "
            "(configuration, request bits, readiness pattern, executed set); non-trivial = the caller requests "
            "(connectors: some method is ready)")
    expected_cov = [f"kind_{k}" for k in KINDS] + [f"factory_{k}" for k in KINDS] + [
        "all_patterns_swept", "all_not_ready_while_requesting", "readiness_dropped_while_requesting", "flapping_target",
        "transfer", "call", "crossbar_multi_transfer", "crossbar_contention",
        "filter_passed", "filter_default_returned", "filter_cond_false_target_not_ready_ran",
        "filter_blocked_by_unready_target_without_use_condition",
        "product_blocked_by_some_target", "tryproduct_partial", "tryproduct_none_ready",
        "nonexclusive_simultaneous_callers",
        "collector_forwarded_same_cycle", "collector_delivered_from_buffer", "collector_buffered", "collector_contention",
        # ways of construction and documented argument forms / defaults
        "built_with_transformer_use", "map_input_transform_is_method", "map_output_transform_is_method",
        "filter_condition_is_method", "filter_omitted_default_judged", "product_default_combiner_judged",
        "tryproduct_default_combiner_empty_result", "product_targets_with_different_layouts",
        # layouts and values
        "empty_input_layout", "empty_output_layout", "single_field_layout", "many_field_layout", "signed_field",
        "nested_field", "wide_field", "one_bit_field", "wide_value_with_top_bit_set",
        # interleavings
        "connect_refused_by_validate_arguments", "crossbar_pair_refused_by_validate_arguments",
        "map_target_rejected_argument", "filter_target_rejected_argument", "product_target_rejected_argument",
        "tryproduct_target_rejected_argument", "nonexclusive_proper_subset_of_callers",
        "rival_took_target_from_product", "rival_on_other_than_first_target", "collector_drain_tail_judged",
    ]
    real = ["transactron.lib.connectors.ConnectTrans", "transactron.lib.connectors.CrossbarConnectTrans",
            "transactron.lib.connectors.Forwarder", "transactron.lib.transformers.MethodMap",
            "transactron.lib.transformers.MethodFilter", "transactron.lib.transformers.MethodProduct",
            "transactron.lib.transformers.MethodTryProduct", "transactron.lib.transformers.NonexclusiveWrapper",
            "transactron.lib.transformers.Collector", "transactron.lib.transformers.Transformer.use",
            "the create() factories of all of them", "transactron.lib.simultaneous.condition",
            "transactron.lib.adapters.Adapter (targets, transform / condition methods)",
            "transactron.lib.adapters.AdapterTrans (callers)",
            "TransactionManager + scheduler", "amaranth pysim"]
    stubs = ["cycle driver (readiness patterns, returned data, call arguments)",
             "python functions mirroring the map / condition / combiner functions given to the transformers",
             "target stubs with a hardware validate_arguments predicate (comp.VAdapter, VStub)"]
    assumptions = [
        "CrossbarConnectTrans: 'transfers exactly when both can run' is read as: no pair of ready, unused methods of "
        "the two sides (each accepting what the other returns) is left in a cycle (maximal matching); demanded only under "
        "the eager scheduler, which runs every "
        "runnable non-conflicting transaction -- under round-robin only safety (matching + data) is checked",
        "MethodFilter without use_condition: blocking on a non-ready target while the condition is false is accepted either way",
        "Collector: a result is reported lost only after 4 cycles without any movement while the caller asks",
        "a target that rejects the argument (validate_arguments) cannot run with it: transformers that must call it do not "
        "execute; MethodTryProduct does not call it and does not report it; whether MethodTryProduct itself stays callable "
        "is not documented and only counted",
    ]
    search_space = ("transformer kinds x ways of construction x layouts x configurations x per-cycle readiness patterns of "
                    "up to 6 adapters, arguments and returned data")

    def gen_config(self, rng, tier, idx):
        big = tier == "thorough"
        kind = rng.choice(KINDS)
        cfg = {"kind": kind, "sched": rng.choice(["eager", "eager", "rr"])}
        wa, wb = rng.choice([3, 4, 6, 8]), rng.choice([2, 3, 5, 8])
        wr, ws = rng.choice([4, 5, 8]), rng.choice([1, 3, 6])
        cfg["ilay"] = [["a", wa], ["b", wb]]
        cfg["olay"] = [["r", wr], ["s", ws]]
        if rng.random() < 0.45:
            cfg["ilay"] = gen_layout(rng, "abcd")
        if rng.random() < 0.45:
            cfg["olay"] = gen_layout(rng, "rstu")
        ilay, olay = cfg["ilay"], cfg["olay"]
        cfg["pcall"] = rng.choice([0.5, 0.8, 0.95, 1.0])
        cfg["factory"] = int(rng.random() < 0.5)
        if kind in TRANSFORMERS and rng.random() < 0.2:
            cfg["use"] = 1
        phases = list(PHASES)

        def tval(p=0.3):
            return rng.choice([0, 0, 1, 2, 3]) if rng.random() < p and scalar_first(ilay) else None

        if kind == "connect" and rng.random() < 0.5:
            # one or both connected methods validate their argument: 0 (most interesting: the value an argument
            # has while nothing is assigned to it) or another small value of the first field is rejected
            cfg["val"] = [rng.choice([None, 0, 0, rng.randint(1, 3)]), rng.choice([None, 0, 0, rng.randint(1, 3)])]
        if kind == "crossbar":
            cfg["n1"], cfg["n2"] = rng.randint(1, 3), rng.randint(1, 3)
            for lay in (ilay, olay):  # the first field carries the port index: at least 6 bits, unsigned scalar
                if lay:
                    w = lay[0][1]
                    lay[0][1] = rng.choice([6, 8, 33]) if isinstance(w, list) else max(abs(w), 6)
            if rng.random() < 0.4:
                cfg["xval"] = [[rng.choice([None, None, 0, 1, 2]) for _ in range(cfg["n1"])],
                               [rng.choice([None, None, 0, 1, 2]) for _ in range(cfg["n2"])]]
        elif kind == "map":
            cfg["itr"] = rng.choice(["none", "addc", "swap", "pack", "method", "method"])
            cfg["otr"] = rng.choice(["none", "xorc", "swap", "sum", "method", "method"])
            cfg["k"] = rng.randint(1, 255)
            if cfg["itr"] == "method":
                cfg["milay"] = rng.choice([ilay, [["x", 9]], gen_layout(rng, "efgh")])
            if cfg["otr"] == "method":
                cfg["molay"] = rng.choice([olay, [["y", 9]], gen_layout(rng, "vwxy")])
            cfg["tval"] = tval()
        elif kind == "filter":
            cfg["use_condition"] = int(rng.random() < 0.5)
            cfg["cond"] = rng.choice(["bit0", "eq2", "lt", "nonzero"])
            if not cfg["use_condition"] and rng.random() < 0.4:  # with use_condition "condition must not be a Method"
                cfg["cond"] = "method"
            if not ilay:
                cfg["cond"] = "const" if cfg["use_condition"] else "method"
            cfg["cw"] = rng.choice([1, 1, 3])
            cfg["k"] = rng.randint(1, 255)
            cfg["default"] = None if rng.random() < 0.35 else [rng.getrandbits(64) | 1 for _ in flat(olay)]
            cfg["tval"] = tval()
        elif kind in ("product", "tryproduct"):
            n = cfg["n"] = rng.randint(1, 4)
            if kind == "product":
                cfg["combiner"] = rng.choice([None, "sumxor", "last"])
            else:
                cfg["combiner"] = rng.choice([None, "report", "report"])
                cfg["rival"] = int(rng.random() < 0.35)
                cfg["rival_t"] = rng.randrange(n)
            if rng.random() < 0.35:  # every target has its own result layout
                cfg["olays"] = [olay] + [
                    gen_layout(rng, "rstu") if rng.random() < 0.6 else [["r", rng.choice([4, 5, 8])], ["s", rng.choice([1, 3, 6])]]
                    for _ in range(n - 1)]
            if rng.random() < 0.3 and scalar_first(ilay):
                cfg["tval"] = [rng.choice([None, None, 0, 1, 2, 3]) for _ in range(n)]
        elif kind == "nonexclusive":
            cfg["ncallers"] = rng.randint(1, 3)
        elif kind == "collector":
            cfg["n"] = rng.randint(1, 4)
            cfg["olay"] = [["r", 12]] + olay[1:]  # unique tags: 4 * cycles + target < 4096
            phases += ["drain", "drain"]
        cycles = rng.randint(60, 200 if not big else 320)
        cfg["cycles"] = cycles
        cfg["plan"] = make_plan(rng, cycles, phases, min_len=5, max_len=24 if kind != "crossbar" else 70)
        if kind == "collector":  # every run ends with a drain tail: targets silent, caller asking
            cfg["plan"] = [e for e in cfg["plan"] if e[0] < cycles - TAIL] + [[cycles - TAIL, "drain", 1.0]]
        return cfg

    def make(self, cfg):
        return SCENS[cfg["kind"]](cfg)

    def features(self, cfg, viol):
        f = {"transformer": cfg["kind"], "factory": int(bool(cfg.get("factory")))}
        if cfg["kind"] == "filter":
            f["use_condition"] = cfg["use_condition"]
            f["cond"] = cfg["cond"]
        if cfg["kind"] == "crossbar":
            f["sched"] = cfg["sched"]
        return f

    def cfg_signature(self, cfg):
        return {k: v for k, v in cfg.items() if k not in ("plan", "cycles", "pcall")}

    def shrink_cfg(self, cfg):
        for key in ("n", "n1", "n2", "ncallers"):
            if cfg.get(key, 1) > 1:
                c = dict(cfg)
                c[key] = cfg[key] - 1
                yield c
        if cfg["sched"] != "eager":
            c = dict(cfg)
            c["sched"] = "eager"
            yield c
        for key in ("use", "factory", "tval", "xval", "val", "olays"):
            if cfg.get(key):
                c = dict(cfg)
                c[key] = None if key in ("tval", "xval", "val", "olays") else 0
                yield c


PROP = Prop()
