"""C18 — method transformers and connectors implement their documented function.

One run = one transformer kind (cfg["kind"]) in one configuration.  Every method the transformer
requires is a real `Adapter` whose readiness (`.en`) and returned data the driver owns each cycle;
the method the transformer provides is called through a real `AdapterTrans`.  The oracle is the
combinational relation the statement gives, evaluated on the settled values of every cycle.

What is demanded (and what is deliberately not):

* "runs" of a caller are never demanded beyond the statement: `done => en and model-ready`,
  `en & ready & ~done` is only counted.  Readiness (`<caller>.runnable` while the caller requests) is
  compared only where the statement gives it: MethodFilter with use_condition and a false condition
  is callable; MethodTryProduct is never blocked by its targets; a lone NonexclusiveWrapper caller is
  callable iff the target is; nothing that must call a non-ready target is callable.  "Refused
  although every target is ready" (MethodMap, MethodFilter, MethodProduct, simultaneous
  NonexclusiveWrapper callers) is only counted.  MethodFilter's default is judged when one was
  passed; MethodProduct's result is judged when a combiner was passed.
  Exceptions, because the statement itself says so: ConnectTrans transfers
  *exactly when* both methods can run (it is the only transaction, nothing can compete);
  MethodTryProduct calls *exactly* the ready targets whenever it runs; a CrossbarConnectTrans
  leaves no ready-ready pair of unused methods -- maximality is a property of the *eager* scheduler
  and is demanded only for sched == "eager"; under "rr" only safety (matching + data) is checked.
* MethodFilter without use_condition and a false condition: whether a non-ready target blocks the
  call is left open by the statement (the code blocks) -- accepted either way, counted.
* NonexclusiveWrapper with two callers in one cycle: forwarding of the call and of the result is
  checked, the combined argument is not (the statement does not define it).
* Collector: a result counts as lost only if nothing moved for several cycles while the caller kept
  asking and an undelivered result exists (the statement has no latency bound).
"""

from __future__ import annotations

from itertools import permutations

from ..comp import CompScenario
from ..propbase import PropBase, make_plan

KINDS = ["connect", "crossbar", "map", "filter", "product", "tryproduct", "nonexclusive", "collector"]
PHASES = ["random", "sweep", "allnot", "flap", "drop", "idle", "allready"]
STUCK = 4  # Collector: cycles without any movement, caller asking, before an undelivered result is "lost"


def mask(w):
    return (1 << w) - 1


class Base(CompScenario):
    """Shared stimulus machinery: phase plan -> readiness pattern of the targets, caller requests."""

    targets: list = []  # adapter names whose readiness is driven
    callers_: list = []  # caller names

    def setup_common(self):
        self.sweep = 0
        self.seen_patterns: set = set()
        self.prev_en: dict = {}
        self.prev_req = 0
        self.hit(f"kind_{self.cfg['kind']}")

    def phase(self, cyc):
        cur = self.cfg["plan"][0]
        for ent in self.cfg["plan"]:
            if ent[0] <= cyc:
                cur = ent
            else:
                break
        return cur[1], cur[2], cur[0]

    def lay(self, key):
        return [(n, w) for n, w in self.cfg[key]]

    def readiness(self, rng, cyc, n):
        kind, p, start = self.phase(cyc)
        rel = cyc - start
        if kind == "sweep":
            pat = self.sweep % (1 << n)
            self.sweep += 1
            return [(pat >> j) & 1 for j in range(n)]
        if kind == "allnot":
            return [0] * n
        if kind == "allready":
            return [1] * n
        if kind == "flap":
            sel = (start * 7 + 3) % (1 << n) or 1  # which targets flap; the others stay ready
            return [((cyc + j) & 1) if (sel >> j) & 1 else 1 for j in range(n)]
        if kind == "drop":
            # all ready first, then one target after the other drops (rotating start) and stays down
            rot = start % n
            return [int(rel < 2 + 2 * ((j + rot) % n)) for j in range(n)]
        if kind == "drain":
            return [0] * n
        if kind == "idle":
            return [int(rng.random() < 0.5) for _ in range(n)]
        return [int(rng.random() < p) for _ in range(n)]

    def request(self, rng, cyc):
        kind, p, _ = self.phase(cyc)
        if kind == "idle":
            return int(rng.random() < 0.05)
        if kind == "drain":
            return 1
        return int(rng.random() < self.cfg["pcall"])

    def fill(self, rng, stim, prefix, layout):
        for f, w in layout:
            stim[f"{prefix}.{f}"] = self.rnd(rng, f"{prefix}.{f}")

    def vals(self, d, prefix, layout):
        return tuple(d.get(f"{prefix}.{f}", 0) for f, _ in layout)

    def readiness_cov(self, stim, req):
        """Fault kinds that fired this cycle, from the applied stimulus alone (replay safe)."""
        en = [stim.get(f"{t}.en", 0) for t in self.targets]
        n = len(en)
        if req:
            pat = sum(b << j for j, b in enumerate(en))
            if pat not in self.seen_patterns:
                self.seen_patterns.add(pat)
                if len(self.seen_patterns) == (1 << n):
                    self.hit("all_patterns_swept")
            if not any(en):
                self.hit("all_not_ready_while_requesting")
            if self.prev_req:
                dropped = [j for j in range(n) if self.prev_en.get(j) and not en[j]]
                if dropped:
                    self.hit("readiness_dropped_while_requesting")
                flapped = [j for j in range(n) if self.prev2_en.get(j) == en[j] and self.prev_en.get(j) != en[j]]
                if flapped and self.prev2_req:
                    self.hit("flapping_target")
        self.prev2_en, self.prev2_req = self.prev_en, self.prev_req
        self.prev_en, self.prev_req = dict(enumerate(en)), req
        return en

    prev2_en: dict = {}
    prev2_req = 0

    def caller_ready_check(self, c, stim, obs, ready, why, judge="both", count=None):
        """Rules 2 and 3: readiness via runnable while requesting; done => en & ready; blocked only counted.

        judge: which direction of `callable == ready` the statement gives for this transformer --
        "both"; "refusal-counted" (callable although not ready is judged, a refusal although ready is
        only counted under `count`); "none" (both directions only counted).  `done => en & ready` is
        judged in every mode."""
        en = stim.get(f"{c}.en", 0)
        done = obs[f"{c}.done"]
        if en and ready is not None:
            run = obs[f"{c}.runnable"]
            if judge == "both" or (judge == "refusal-counted" and not ready):
                self.expect(run == int(ready), "ready-mismatch",
                            f"{c}: callable={run} expected {int(ready)} ({why})", port=c)
            elif run != int(ready):
                self.hit(count if ready else f"{count}_inverse")
        self.expect(not done or (en and ready is not False), "ran-when-not-callable",
                    f"{c}: en={en} ready={ready} done={done} ({why})", port=c)
        if en and ready and not done:
            self.hit("blocked_though_ready")
        return en, done


# ------------------------------------------------------------------------------------------------
# ConnectTrans / CrossbarConnectTrans


class ConnectScen(Base):
    def build(self):
        from transactron.lib import ConnectTrans

        self.il, self.ol = self.lay("ilay"), self.lay("olay")
        self.dut = ConnectTrans(self.il, self.ol)
        self.top.add("dut", self.dut)
        # optionally a connected method validates its argument (rejects first field == K): the transfer then
        # happens exactly when both are ready *and* accept what the other one returns
        self.val = self.cfg.get("val") or [None, None]
        for name, meth, k in (("m1", self.dut.method1, self.val[0]), ("m2", self.dut.method2, self.val[1])):
            if k is None or not len(meth.layout_in.members):
                self.callee(name, meth)  # m1 takes il, returns ol; m2 takes ol, returns il
            else:
                self.vcallee(name, meth, k)
        self.targets = ["m1", "m2"]
        self.setup_common()
        return self.top

    def stimulus(self, rng, cyc):
        stim = {}
        e = self.readiness(rng, cyc, 2)
        stim["m1.en"], stim["m2.en"] = e
        self.fill(rng, stim, "m1.ret", self.ol)
        self.fill(rng, stim, "m2.ret", self.il)
        return stim

    def check(self, cyc, stim, obs):
        e1, e2 = self.readiness_cov(stim, 1)
        d1, d2 = obs["m1.done"], obs["m2.done"]
        ok = 1
        if self.val[0] is not None and self.il:
            ok &= int(self.vals(stim, "m2.ret", self.il)[0] != self.val[0])
        if self.val[1] is not None and self.ol:
            ok &= int(self.vals(stim, "m1.ret", self.ol)[0] != self.val[1])
        if not ok and e1 and e2:
            self.hit("connect_refused_by_validate_arguments")
        self.expect(d1 == d2 == (e1 & e2 & ok), "connect-run-mismatch",
                    f"ready=({e1},{e2}) arguments accepted={ok} but executed=({d1},{d2}): a transfer happens exactly when both can run")
        if d1:
            self.hit("transfer")
            self.expect(self.vals(obs, "m1.arg", self.il) == self.vals(stim, "m2.ret", self.il), "data-mismatch",
                        f"method1 got {self.vals(obs, 'm1.arg', self.il)}, method2 returned {self.vals(stim, 'm2.ret', self.il)}")
            self.expect(self.vals(obs, "m2.arg", self.ol) == self.vals(stim, "m1.ret", self.ol), "data-mismatch",
                        f"method2 got {self.vals(obs, 'm2.arg', self.ol)}, method1 returned {self.vals(stim, 'm1.ret', self.ol)}")
        self.visit(("connect", e1, e2, d1), nontrivial=bool(e1 or e2))


class CrossbarScen(Base):
    def build(self):
        from transactron.lib import CrossbarConnectTrans

        c = self.cfg
        self.il, self.ol = self.lay("ilay"), self.lay("olay")
        self.n1, self.n2 = c["n1"], c["n2"]
        self.dut = CrossbarConnectTrans(self.n1, self.n2, self.il, self.ol)
        self.top.add("dut", self.dut)
        self.an = [f"a{i}" for i in range(self.n1)]
        self.bn = [f"b{j}" for j in range(self.n2)]
        for i, n in enumerate(self.an):
            self.callee(n, self.dut.methods1[i])
        for j, n in enumerate(self.bn):
            self.callee(n, self.dut.methods2[j])
        self.targets = self.an + self.bn
        self.setup_common()
        return self.top

    def stimulus(self, rng, cyc):
        stim = {}
        e = self.readiness(rng, cyc, self.n1 + self.n2)
        for k, t in enumerate(self.targets):
            stim[f"{t}.en"] = e[k]
        # returned data: port index in the low bits of the first field, so that equal values of two
        # ports in one cycle (which would only make the matching ambiguous) are rare
        for i, n in enumerate(self.an):
            self.fill(rng, stim, f"{n}.ret", self.ol)
            f, w = self.ol[0]
            stim[f"{n}.ret.{f}"] = ((rng.getrandbits(w) << 2) | i) & mask(w)
        for j, n in enumerate(self.bn):
            self.fill(rng, stim, f"{n}.ret", self.il)
            f, w = self.il[0]
            stim[f"{n}.ret.{f}"] = ((rng.getrandbits(w) << 2) | j) & mask(w)
        return stim

    def check(self, cyc, stim, obs):
        en = self.readiness_cov(stim, 1)
        ea, eb = en[: self.n1], en[self.n1:]
        da = [obs[f"{n}.done"] for n in self.an]
        db = [obs[f"{n}.done"] for n in self.bn]
        for k, n in enumerate(self.targets):
            self.expect(not (da + db)[k] or en[k], "ran-when-not-callable", f"{n} executed while not ready", port=n)
        A = [i for i in range(self.n1) if da[i]]
        B = [j for j in range(self.n2) if db[j]]
        self.expect(len(A) == len(B), "crossbar-not-a-matching",
                    f"methods1 executed {A}, methods2 executed {B}: every transfer uses one method of each side once")
        # the set of transfers: a bijection between executed methods consistent with the data seen
        ok = None
        for perm in permutations(B):
            if all(self.vals(obs, f"a{i}.arg", self.il) == self.vals(stim, f"b{j}.ret", self.il)
                   and self.vals(obs, f"b{j}.arg", self.ol) == self.vals(stim, f"a{i}.ret", self.ol)
                   for i, j in zip(A, perm)):
                ok = list(zip(A, perm))
                break
        self.expect(ok is not None, "data-mismatch",
                    f"no pairing of executed methods1 {A} with methods2 {B} explains the arguments they received")
        if self.cfg["sched"] == "eager":
            left = [(i, j) for i in range(self.n1) for j in range(self.n2)
                    if ea[i] and eb[j] and not da[i] and not db[j]]
            self.expect(not left, "crossbar-not-maximal",
                        f"ready pairs {left} left although both methods were unused (ready1={ea} ready2={eb} transfers={ok})")
        elif any(ea) and any(eb) and not A:
            self.hit("blocked_though_ready")
        if len(A) >= 2:
            self.hit("crossbar_multi_transfer")
        if A and sum(ea) != sum(eb):
            self.hit("crossbar_contention")
        if A:
            self.hit("transfer")
        self.visit(("xbar", tuple(en), tuple(ok)), nontrivial=any(ea) and any(eb))


# ------------------------------------------------------------------------------------------------
# one target: MethodMap, MethodFilter, NonexclusiveWrapper


def fit(v, w):
    """The value v as exactly w bits (truncated / zero-extended): `assign` wants equal shapes."""
    from amaranth import C

    return (v + C(0, w))[:w]


def i_transform(kind, k, il):
    """(layout of the transformed method, amaranth function, python model arg-dict -> target-dict)."""
    (fa, wa), (fb, wb) = il
    if kind == "none":
        return None, il, lambda d: dict(d)
    if kind == "addc":
        return (il, lambda m, x: {fa: fit(x[fa] + k, wa), fb: x[fb]}), il, lambda d: {fa: (d[fa] + k) & mask(wa), fb: d[fb]}
    if kind == "swap":
        return ((il, lambda m, x: {fa: fit(x[fb], wa), fb: fit(x[fa], wb)}), il,
                lambda d: {fa: d[fb] & mask(wa), fb: d[fa] & mask(wb)})
    if kind == "pack":
        ml = [("x", wa + wb)]
        return ((ml, lambda m, x: {fa: x["x"][:wa], fb: x["x"][wa:]}), ml,
                lambda d: {fa: d["x"] & mask(wa), fb: (d["x"] >> wa) & mask(wb)})
    raise ValueError(kind)


def o_transform(kind, k, ol):
    (fr, wr), (fs, ws) = ol
    if kind == "none":
        return None, ol, lambda d: dict(d)
    if kind == "xorc":
        return (ol, lambda m, x: {fr: x[fr] ^ (k & mask(wr)), fs: x[fs]}), ol, lambda d: {fr: d[fr] ^ (k & mask(wr)), fs: d[fs]}
    if kind == "swap":
        return ((ol, lambda m, x: {fr: fit(x[fs], wr), fs: fit(x[fr], ws)}), ol,
                lambda d: {fr: d[fs] & mask(wr), fs: d[fr] & mask(ws)})
    if kind == "sum":
        ml = [("y", max(wr, ws) + 1)]
        return (ml, lambda m, x: {"y": x[fr] + x[fs]}), ml, lambda d: {"y": d[fr] + d[fs]}
    raise ValueError(kind)


class MapScen(Base):
    def build(self):
        from transactron.lib import MethodMap

        c = self.cfg
        self.il, self.ol = self.lay("ilay"), self.lay("olay")
        it, self.mil, self.ipy = i_transform(c["itr"], c["k"], self.il)
        ot, self.mol, self.opy = o_transform(c["otr"], c["k"], self.ol)
        self.dut = MethodMap(self.il, self.ol, i_transform=it, o_transform=ot)
        self.top.add("dut", self.dut)
        self.callee("t", self.dut.target)
        self.caller("c", self.dut.method)
        self.targets = ["t"]
        self.setup_common()
        return self.top

    def stimulus(self, rng, cyc):
        stim = {"t.en": self.readiness(rng, cyc, 1)[0], "c.en": self.request(rng, cyc)}
        self.fill(rng, stim, "t.ret", self.ol)
        self.fill(rng, stim, "c.i", self.mil)
        return stim

    def check(self, cyc, stim, obs):
        (te,) = self.readiness_cov(stim, stim.get("c.en", 0))
        # the statement gives no readiness of the map: only `done => target ready` is judged
        en, done = self.caller_ready_check("c", stim, obs, bool(te), f"target ready={te}", judge="none",
                                           count="map_refused_though_target_ready")
        td = obs["t.done"]
        self.expect(td == done, "target-call-mismatch", f"map executed={done} but target executed={td}")
        if done:
            self.hit("call")
            arg = {f: stim.get(f"c.i.{f}", 0) for f, _ in self.mil}
            want = self.ipy(arg)
            got = {f: obs[f"t.arg.{f}"] for f, _ in self.il}
            self.expect(got == want, "arg-mismatch", f"target received {got}, input map of {arg} is {want}")
            ret = {f: stim.get(f"t.ret.{f}", 0) for f, _ in self.ol}
            wanto = self.opy(ret)
            goto = {f: obs[f"c.o.{f}"] for f, _ in self.mol}
            self.expect(goto == wanto, "result-mismatch", f"caller received {goto}, output map of {ret} is {wanto}")
        self.visit(("map", en, te, done), nontrivial=bool(en))


def filter_cond(kind, k, il):
    (fa, wa), (fb, wb) = il
    if kind == "bit0":
        return (lambda m, x: x[fa][0]), (lambda d: d[fa] & 1)
    if kind == "eq2":
        return (lambda m, x: x[fa][:2] == x[fb][:2]), (lambda d: int((d[fa] & 3) == (d[fb] & 3)))
    if kind == "lt":
        kk = k & mask(wa)
        return (lambda m, x: x[fa] < kk), (lambda d: int(d[fa] < kk))
    if kind == "nonzero":  # a multi-bit value: "non-zero return value is interpreted as true"
        return (lambda m, x: x[fb]), (lambda d: int(d[fb] != 0))
    raise ValueError(kind)


class FilterScen(Base):
    def build(self):
        from transactron.lib import MethodFilter

        c = self.cfg
        self.il, self.ol = self.lay("ilay"), self.lay("olay")
        cf, self.cpy = filter_cond(c["cond"], c["k"], self.il)
        self.uc = bool(c["use_condition"])
        self.default = {f: 0 for f, _ in self.ol}
        dflt = None
        if c["default"] is not None:
            self.default = {f: v & mask(w) for (f, w), v in zip(self.ol, c["default"])}
            dflt = dict(self.default)
        if c.get("factory"):  # built through the documented factory around an existing target method
            ad = self.callee("t", None, i=self.il, o=self.ol)
            self.dut = MethodFilter.create(ad.iface, cf, dflt, use_condition=self.uc)
            self.top.add("dut", self.dut)
        else:
            self.dut = MethodFilter(self.il, self.ol, cf, dflt, use_condition=self.uc)
            self.top.add("dut", self.dut)
            self.callee("t", self.dut.target)
        self.caller("c", self.dut.method)
        self.targets = ["t"]
        self.setup_common()
        return self.top

    def stimulus(self, rng, cyc):
        stim = {"t.en": self.readiness(rng, cyc, 1)[0], "c.en": self.request(rng, cyc)}
        self.fill(rng, stim, "t.ret", self.ol)
        self.fill(rng, stim, "c.i", self.il)
        if rng.random() < 0.3:  # make "eq2" / "lt" / "nonzero" flip often enough
            stim[f"c.i.{self.il[1][0]}"] = stim[f"c.i.{self.il[0][0]}"] & mask(self.il[1][1]) if rng.random() < 0.5 else 0
        return stim

    def check(self, cyc, stim, obs):
        (te,) = self.readiness_cov(stim, stim.get("c.en", 0))
        arg = {f: stim.get(f"c.i.{f}", 0) for f, _ in self.il}
        cond = int(self.cpy(arg))
        judge = "refusal-counted"
        if cond:
            # the target has to be called, so it has to be callable; that the filter *is* callable when
            # the target is ready is not stated -> a refusal is counted
            ready = bool(te)
        elif self.uc:
            ready, judge = True, "both"  # "not blocking on the target when use_condition is set"
        else:
            ready = None if not te else True  # blocking on a non-ready target is left open by the statement
        en, done = self.caller_ready_check("c", stim, obs, ready, f"cond={cond} target ready={te} use_condition={self.uc}",
                                           judge=judge, count="filter_refused_though_target_ready")
        td = obs["t.done"]
        self.expect(td == (done & cond), "target-call-mismatch",
                    f"filter executed={done} cond={cond} but target executed={td}: target is called exactly when the condition holds")
        got = {f: obs[f"c.o.{f}"] for f, _ in self.ol}
        if done and cond:
            self.hit("filter_passed")
            targ = {f: obs[f"t.arg.{f}"] for f, _ in self.il}
            self.expect(targ == arg, "arg-mismatch", f"target received {targ}, call argument was {arg}")
            ret = {f: stim.get(f"t.ret.{f}", 0) for f, _ in self.ol}
            self.expect(got == ret, "result-mismatch", f"caller received {got}, target returned {ret}")
        if done and not cond:
            self.hit("filter_default_returned")
            if self.cfg["default"] is not None:  # "returning the default": judged for a default that was given
                self.expect(got == self.default, "default-mismatch",
                            f"condition false: caller received {got}, default is {self.default}")
            elif got != self.default:
                self.hit("filter_unspecified_default_not_zero")
            if not te:
                self.hit("filter_cond_false_target_not_ready_ran")
        if en and not cond and not te and not done and not self.uc:
            self.hit("filter_blocked_by_unready_target_without_use_condition")
        self.visit(("filter", en, te, cond, done), nontrivial=bool(en))

    def post_elab(self, tm):
        if not self.uc:
            return super().post_elab(tm)
        # use_condition: the manager merges the calling transaction with each branch of `condition`, so the
        # caller "could run" iff one of the merged transactions (which call the caller's body as a method) can
        from amaranth import Cat

        at = self.callers["c"]
        ts = [t for t in tm.transactions if any(getattr(mm._body, "owner", None) is at for mm in t._body.method_calls)]
        if not ts:  # the filter was not built with a condition() block: the caller's own transaction decides
            return super().post_elab(tm)
        self.add_obs("c.runnable", Cat(t.runnable for t in ts).any())


class NonexScen(Base):
    def build(self):
        from transactron.lib import NonexclusiveWrapper

        c = self.cfg
        self.il, self.ol = self.lay("ilay"), self.lay("olay")
        self.dut = NonexclusiveWrapper(self.il, self.ol)
        self.top.add("dut", self.dut)
        self.callee("t", self.dut.target)
        self.cn = [f"c{k}" for k in range(c["ncallers"])]
        for n in self.cn:
            self.caller(n, self.dut.method)
        self.targets = ["t"]
        self.setup_common()
        return self.top

    def stimulus(self, rng, cyc):
        stim = {"t.en": self.readiness(rng, cyc, 1)[0]}
        self.fill(rng, stim, "t.ret", self.ol)
        req = self.request(rng, cyc)
        # the wrapper is meant for callers that never call together; simultaneous calls are produced
        # at a low rate only to see that callers do not exclude each other
        who = rng.randrange(len(self.cn))
        both = rng.random() < 0.15
        for k, n in enumerate(self.cn):
            stim[f"{n}.en"] = int(req and (k == who or both))
            self.fill(rng, stim, f"{n}.i", self.il)
        return stim

    def check(self, cyc, stim, obs):
        reqs = [stim.get(f"{n}.en", 0) for n in self.cn]
        (te,) = self.readiness_cov(stim, int(any(reqs)))
        dones = []
        # "forwards calls": a lone caller is callable iff the target is; that several callers of one cycle
        # are all callable is not stated -> a refusal among simultaneous callers is counted
        judge = "refusal-counted" if sum(reqs) >= 2 else "both"
        for n in self.cn:
            _, d = self.caller_ready_check(n, stim, obs, bool(te), f"target ready={te}", judge=judge,
                                           count="nonexclusive_simultaneous_caller_refused")
            dones.append(d)
        td = obs["t.done"]
        self.expect(td == int(any(dones)), "target-call-mismatch", f"callers executed={dones} but target executed={td}")
        ret = {f: stim.get(f"t.ret.{f}", 0) for f, _ in self.ol}
        for n, d in zip(self.cn, dones):
            if d:
                got = {f: obs[f"{n}.o.{f}"] for f, _ in self.ol}
                self.expect(got == ret, "result-mismatch", f"{n} received {got}, target returned {ret}", port=n)
        if sum(dones) == 1:
            self.hit("call")
            n = self.cn[dones.index(1)]
            arg = {f: stim.get(f"{n}.i.{f}", 0) for f, _ in self.il}
            targ = {f: obs[f"t.arg.{f}"] for f, _ in self.il}
            self.expect(targ == arg, "arg-mismatch", f"target received {targ}, {n} called with {arg}", port=n)
        if sum(dones) >= 2:
            self.hit("nonexclusive_simultaneous_callers")
        self.visit(("nonex", tuple(reqs), te, tuple(dones)), nontrivial=any(reqs))


# ------------------------------------------------------------------------------------------------
# many targets: MethodProduct, MethodTryProduct, Collector


class ProductScen(Base):
    def build(self):
        from transactron.lib import MethodProduct

        c = self.cfg
        self.il, self.ol = self.lay("ilay"), self.lay("olay")
        self.n = c["n"]
        (fr, wr), (fs, ws) = self.ol
        comb = None
        self.mol = self.ol
        if c["combiner"] == "sumxor":
            self.mol = [("y", wr + 2), ("z", ws)]

            def fn(m, xs):
                y, z = 0, 0
                for x in xs:
                    y, z = y + x[fr], z ^ x[fs]
                return {"y": fit(y, wr + 2), "z": fit(z, ws)}

            comb = (self.mol, fn)
        elif c["combiner"] == "last":
            comb = (self.ol, lambda m, xs: xs[-1])
        self.dut = MethodProduct(self.il, [self.ol] * self.n, comb)
        self.top.add("dut", self.dut)
        self.targets = [f"t{j}" for j in range(self.n)]
        for j, t in enumerate(self.targets):
            self.callee(t, self.dut.targets[j])
        self.caller("c", self.dut.method)
        self.setup_common()
        return self.top

    def stimulus(self, rng, cyc):
        stim = {"c.en": self.request(rng, cyc)}
        e = self.readiness(rng, cyc, self.n)
        for j, t in enumerate(self.targets):
            stim[f"{t}.en"] = e[j]
            self.fill(rng, stim, f"{t}.ret", self.ol)
        self.fill(rng, stim, "c.i", self.il)
        return stim

    def check(self, cyc, stim, obs):
        te = self.readiness_cov(stim, stim.get("c.en", 0))
        # "calls all targets": it cannot run unless all are ready; that it can whenever all are is not stated
        en, done = self.caller_ready_check("c", stim, obs, all(te), f"targets ready={te}", judge="refusal-counted",
                                           count="product_refused_though_all_targets_ready")
        td = [obs[f"{t}.done"] for t in self.targets]
        self.expect(all(d == done for d in td), "target-call-mismatch",
                    f"product executed={done} but targets executed={td}: all targets are called")
        if en and not all(te) and any(te):
            self.hit("product_blocked_by_some_target")
        if done:
            self.hit("call")
            arg = self.vals(stim, "c.i", self.il)
            for t in self.targets:
                self.expect(self.vals(obs, f"{t}.arg", self.il) == arg, "arg-mismatch",
                            f"{t} received {self.vals(obs, f'{t}.arg', self.il)}, call argument was {arg}", port=t)
            rets = [self.vals(stim, f"{t}.ret", self.ol) for t in self.targets]
            comb = self.cfg["combiner"]
            if comb == "sumxor":
                z = 0
                for r in rets:
                    z ^= r[1]
                want = (sum(r[0] for r in rets) & mask(self.mol[0][1]), z)
            elif comb == "last":
                want = rets[-1]
            else:
                want = None  # no combiner: the statement does not say which result is returned
            got = self.vals(obs, "c.o", self.mol)
            if want is None:
                self.hit("product_no_combiner_result_is_first_target" if got == rets[0]
                         else "product_no_combiner_result_is_not_first_target")
            else:
                self.expect(got == want, "result-mismatch", f"caller received {got}, expected {want} from target results {rets}")
        self.visit(("product", en, tuple(te), done), nontrivial=bool(en))


class TryProductScen(Base):
    def build(self):
        from transactron.lib import MethodTryProduct
        from amaranth import Cat

        c = self.cfg
        self.il, self.ol = self.lay("ilay"), self.lay("olay")
        self.n = c["n"]
        (fr, wr), (fs, ws) = self.ol
        comb = None
        self.mol = []
        if c["combiner"] == "report":
            self.mol = [("succ", self.n)] + [(f"r{j}", wr) for j in range(self.n)] + [(f"s{j}", ws) for j in range(self.n)]

            def fn(m, xs):
                d = {"succ": Cat(s for s, _ in xs)}
                for j, (_, x) in enumerate(xs):
                    d[f"r{j}"] = x[fr]
                    d[f"s{j}"] = x[fs]
                return d

            comb = (self.mol, fn)
        self.dut = MethodTryProduct(self.il, [self.ol] * self.n, comb)
        self.top.add("dut", self.dut)
        self.targets = [f"t{j}" for j in range(self.n)]
        for j, t in enumerate(self.targets):
            self.callee(t, self.dut.targets[j])
        self.caller("c", self.dut.method)
        if c.get("rival"):  # another transaction calls target 0 directly and competes with the product for it
            self.caller("rv", self.dut.targets[0])
        self.setup_common()
        return self.top

    def stimulus(self, rng, cyc):
        stim = ProductScen.stimulus(self, rng, cyc)
        if self.cfg.get("rival"):
            stim["rv.en"] = int(rng.random() < 0.6)
            for name in self.inp:
                if name.startswith("rv.i."):
                    stim[name] = self.rnd(rng, name)
        return stim

    def check(self, cyc, stim, obs):
        te = self.readiness_cov(stim, stim.get("c.en", 0))
        # "the methods which are not ready are not called": no readiness pattern blocks the product
        en, done = self.caller_ready_check("c", stim, obs, True, f"targets ready={te}")
        td = [obs[f"{t}.done"] for t in self.targets]
        rv = bool(self.cfg.get("rival") and obs["rv.done"])
        if rv:
            # target 0 served the rival in this cycle: the product did not call it (whichever of the two gets a
            # contended target is the scheduler's choice) and must not report success for it
            self.expect(td[0] == 1, "target-call-mismatch", "rival caller of target 0 done, target 0 not executed")
            self.expect(self.vals(obs, "t0.arg", self.il) == self.vals(stim, "rv.i", self.il), "arg-mismatch",
                        "target 0 executed for the rival with another argument", port="t0")
            td = [0] + td[1:]
            te = [0] + list(te[1:])
            self.hit("rival_took_target_from_product" if done else "rival_alone")
        want = [int(bool(done and e)) for e in te]
        self.expect(td == want, "target-call-mismatch",
                    f"try-product executed={done}, targets ready={te} but executed={td}: exactly the ready targets are called")
        if done:
            self.hit("call")
            if 0 < sum(te) < self.n:
                self.hit("tryproduct_partial")
            if not any(te):
                self.hit("tryproduct_none_ready")
            arg = self.vals(stim, "c.i", self.il)
            for t, d in zip(self.targets, td):
                if d:
                    self.expect(self.vals(obs, f"{t}.arg", self.il) == arg, "arg-mismatch",
                                f"{t} received {self.vals(obs, f'{t}.arg', self.il)}, call argument was {arg}", port=t)
            if self.mol:
                succ = obs["c.o.succ"]
                self.expect(succ == sum(d << j for j, d in enumerate(td)), "success-report-mismatch",
                            f"reported success bits {succ:0{self.n}b} (bit j = target j), targets executed={td}")
                for j, t in enumerate(self.targets):
                    if td[j]:
                        got = (obs[f"c.o.r{j}"], obs[f"c.o.s{j}"])
                        ret = self.vals(stim, f"{t}.ret", self.ol)
                        self.expect(got == ret, "result-mismatch", f"combiner saw {got} for {t}, which returned {ret}", port=t)
        self.visit(("try", en, tuple(te), done), nontrivial=bool(en))


class CollectorScen(Base):
    def build(self):
        from transactron.lib import Collector

        c = self.cfg
        self.ol = self.lay("olay")
        self.n = c["n"]
        self.dut = Collector(self.n, self.ol)
        self.top.add("dut", self.dut)
        self.targets = [f"t{j}" for j in range(self.n)]
        for j, t in enumerate(self.targets):
            self.callee(t, self.dut.targets[j])
        self.caller("c", self.dut.method)
        self.setup_common()
        self.pending: list = []  # taken from a target, not yet delivered
        self.ever: set = set()
        self.taken = self.delivered = 0
        self.still = 0
        self.tagw = self.ol[0][1]
        return self.top

    def stimulus(self, rng, cyc):
        stim = {"c.en": self.request(rng, cyc)}
        kind, p, _ = self.phase(cyc)
        if kind == "allnot" and rng.random() < 0.5:
            stim["c.en"] = 0  # let results pile up in front of a caller that does not ask
        e = self.readiness(rng, cyc, self.n)
        f0 = self.ol[0][0]
        for j, t in enumerate(self.targets):
            stim[f"{t}.en"] = e[j]
            self.fill(rng, stim, f"{t}.ret", self.ol)
            stim[f"{t}.ret.{f0}"] = (cyc * 4 + j + 1) & mask(self.tagw)  # unique tag of this (cycle, target) offer
        return stim

    def check(self, cyc, stim, obs):
        te = self.readiness_cov(stim, stim.get("c.en", 0))
        en = stim.get("c.en", 0)
        done = obs["c.done"]
        self.expect(not done or en, "ran-when-not-callable", "collector method executed without a request")
        now = []
        for j, t in enumerate(self.targets):
            d = obs[f"{t}.done"]
            self.expect(not d or te[j], "ran-when-not-callable", f"{t} executed while not ready", port=t)
            if d:
                v = self.vals(stim, f"{t}.ret", self.ol)
                self.premise(v[0] not in self.ever, "result tags are unique")
                self.ever.add(v[0])
                now.append(v)
        avail = self.pending + now
        if done:
            got = self.vals(obs, "c.o", self.ol)
            self.expect(got in avail, "delivered-unknown-or-duplicate",
                        f"collector returned {got}; taken and not yet delivered: {avail}")
            avail.remove(got)
            self.delivered += 1
            if got in now:
                self.hit("collector_forwarded_same_cycle")
            else:
                self.hit("collector_delivered_from_buffer")
        if now and avail:
            self.hit("collector_buffered")  # a result taken in this cycle (or an older one) stays behind
        if sum(te) >= 2:
            self.hit("collector_contention")
        self.taken += len(now)
        moved = bool(now) or bool(done)
        self.pending = avail
        # loss: an undelivered result exists, the caller keeps asking, and nothing moves any more
        if en and not moved and self.pending:
            self.still += 1
        else:
            self.still = 0
        self.expect(self.still < STUCK, "result-lost",
                    f"results {self.pending} were taken from targets and are not delivered although the caller "
                    f"asked for {self.still} cycles in which nothing else moved")
        if en and not done and self.pending:
            self.hit("blocked_though_ready")
        self.visit(("coll", en, tuple(te), done, len(now), min(len(self.pending), 2)), nontrivial=bool(now) or bool(done))

    def finish(self):
        if self.pending:
            self.hit("collector_buffered_at_end")
        self.notes["taken"] = self.taken
        self.notes["delivered"] = self.delivered


SCENS = {"connect": ConnectScen, "crossbar": CrossbarScen, "map": MapScen, "filter": FilterScen,
         "product": ProductScen, "tryproduct": TryProductScen, "nonexclusive": NonexScen, "collector": CollectorScen}


class Prop(PropBase):
    ID = "C18"
    tiers = {
        "quick": {"runs": 720, "selftest_runs": 4},
        "thorough": {"runs": 12000, "selftest_runs": 32},
    }
    rule = ("one run = one transformer kind (ConnectTrans, CrossbarConnectTrans 1-3x1-3, MethodMap, MethodFilter, "
            "MethodProduct, MethodTryProduct, NonexclusiveWrapper, Collector) in one configuration (layout widths, "
            "1-4 targets, map/condition/combiner functions, default, use_condition, scheduler), driven for 60-200 cycles "
            "by a seeded phase plan over the targets' readiness (random / sweep of all patterns / all-not-ready / "
            "flapping / dropping one by one / all ready / idle caller); distinct = distinct (configuration, request bits, "
            "readiness pattern, executed set); non-trivial = the caller requests (connectors: some method is ready)")
    expected_cov = [f"kind_{k}" for k in KINDS] + [
        "all_patterns_swept", "all_not_ready_while_requesting", "readiness_dropped_while_requesting", "flapping_target",
        "transfer", "call", "crossbar_multi_transfer", "crossbar_contention",
        "filter_passed", "filter_default_returned", "filter_cond_false_target_not_ready_ran",
        "filter_blocked_by_unready_target_without_use_condition",
        "product_blocked_by_some_target", "tryproduct_partial", "tryproduct_none_ready",
        "nonexclusive_simultaneous_callers",
        "collector_forwarded_same_cycle", "collector_delivered_from_buffer", "collector_buffered", "collector_contention",
    ]
    real = ["transactron.lib.connectors.ConnectTrans", "transactron.lib.connectors.CrossbarConnectTrans",
            "transactron.lib.connectors.Forwarder", "transactron.lib.transformers.MethodMap",
            "transactron.lib.transformers.MethodFilter", "transactron.lib.transformers.MethodProduct",
            "transactron.lib.transformers.MethodTryProduct", "transactron.lib.transformers.NonexclusiveWrapper",
            "transactron.lib.transformers.Collector", "transactron.lib.simultaneous.condition",
            "transactron.lib.adapters.Adapter (targets)", "transactron.lib.adapters.AdapterTrans (callers)",
            "TransactionManager + scheduler", "amaranth pysim"]
    stubs = ["cycle driver (readiness patterns, returned data, call arguments)",
             "python functions mirroring the map / condition / combiner functions given to the transformers"]
    assumptions = [
        "CrossbarConnectTrans: 'transfers exactly when both can run' is read as: no pair of ready, unused methods of "
        "the two sides is left in a cycle (maximal matching); demanded only under the eager scheduler, which runs every "
        "runnable non-conflicting transaction -- under round-robin only safety (matching + data) is checked",
        "MethodFilter without use_condition: blocking on a non-ready target while the condition is false is accepted either way",
        "Collector: a result is reported lost only after 4 cycles without any movement while the caller asks",
    ]
    search_space = ("transformer kinds x configurations x per-cycle readiness patterns of up to 6 adapters, arguments and "
                    "returned data")

    def gen_config(self, rng, tier, idx):
        big = tier == "thorough"
        kind = rng.choice(KINDS)
        cfg = {"kind": kind, "sched": rng.choice(["eager", "eager", "rr"])}
        wa, wb = rng.choice([3, 4, 6, 8]), rng.choice([2, 3, 5, 8])
        wr, ws = rng.choice([4, 5, 8]), rng.choice([1, 3, 6])
        cfg["ilay"] = [["a", wa], ["b", wb]]
        cfg["olay"] = [["r", wr], ["s", ws]]
        cfg["pcall"] = rng.choice([0.5, 0.8, 0.95, 1.0])
        phases = list(PHASES)
        if kind == "connect" and rng.random() < 0.5:
            # one or both connected methods validate their argument: 0 (most interesting: the value an argument
            # has while nothing is assigned to it) or another small value of the first field is rejected
            cfg["val"] = [rng.choice([None, 0, 0, rng.randint(1, 3)]), rng.choice([None, 0, 0, rng.randint(1, 3)])]
        if kind == "crossbar":
            cfg["n1"], cfg["n2"] = rng.randint(1, 3), rng.randint(1, 3)
            cfg["ilay"][0][1] = max(wa, 6)
            cfg["olay"][0][1] = max(wr, 6)
        elif kind == "map":
            cfg["itr"] = rng.choice(["none", "addc", "swap", "pack"])
            cfg["otr"] = rng.choice(["none", "xorc", "swap", "sum"])
            cfg["k"] = rng.randint(1, 255)
        elif kind == "filter":
            cfg["cond"] = rng.choice(["bit0", "eq2", "lt", "nonzero"])
            cfg["k"] = rng.randint(1, 255)
            cfg["use_condition"] = int(rng.random() < 0.5)
            cfg["factory"] = int(rng.random() < 0.5)
            cfg["default"] = None if rng.random() < 0.35 else [rng.randint(1, 255), rng.randint(1, 63)]
        elif kind == "product":
            cfg["n"] = rng.randint(1, 4)
            cfg["combiner"] = rng.choice([None, "sumxor", "last"])
        elif kind == "tryproduct":
            cfg["n"] = rng.randint(1, 4)
            cfg["combiner"] = rng.choice([None, "report", "report"])
            cfg["rival"] = int(rng.random() < 0.35)
        elif kind == "nonexclusive":
            cfg["ncallers"] = rng.randint(1, 3)
        elif kind == "collector":
            cfg["n"] = rng.randint(1, 4)
            cfg["olay"][0][1] = 12  # unique tags: 4 * cycles + target < 4096
            phases += ["drain", "drain"]
        cycles = rng.randint(60, 200 if not big else 320)
        cfg["cycles"] = cycles
        cfg["plan"] = make_plan(rng, cycles, phases, min_len=5, max_len=24 if kind != "crossbar" else 70)
        return cfg

    def make(self, cfg):
        return SCENS[cfg["kind"]](cfg)

    def features(self, cfg, viol):
        f = {"transformer": cfg["kind"]}
        if cfg["kind"] == "filter":
            f["use_condition"] = cfg["use_condition"]
            f["cond"] = cfg["cond"]
        if cfg["kind"] == "crossbar":
            f["sched"] = cfg["sched"]
        return f

    def cfg_signature(self, cfg):
        return {k: v for k, v in cfg.items() if k not in ("plan", "cycles", "pcall")}

    def shrink_cfg(self, cfg):
        for key in ("n", "n1", "n2", "ncallers"):
            if cfg.get(key, 1) > 1:
                c = dict(cfg)
                c[key] = cfg[key] - 1
                yield c
        if cfg["sched"] != "eager":
            c = dict(cfg)
            c["sched"] = "eager"
            yield c


PROP = Prop()
