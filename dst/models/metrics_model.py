"""Integer reference models of the hardware metrics (C31, C32).

The histogram is described by its documentation only: the number of observations, their sum, their
minimum and maximum, and `bucket_count` exponential buckets [0,1) [1,2) [2,4) ... [2**(n-2), inf).
Registers hold their value modulo 2**width."""

from __future__ import annotations


def bucket_of(v: int, bucket_count: int) -> int:
    """Index of the documented bucket a sample falls into."""
    if v == 0:
        return 0
    return min(v.bit_length(), bucket_count - 1)


class HistModel:
    def __init__(self, bucket_count: int, sample_width: int, reg_width: int = 32):
        self.bucket_count = bucket_count
        self.sample_width = sample_width
        self.reg_width = reg_width
        self.samples = 0  # true (unbounded) numbers
        self.total = 0
        self.lo = None
        self.hi = None
        self.buckets = [0] * bucket_count

    def add_cycle(self, samples: list) -> dict:
        """All samples added in one clock cycle.  Returns what happened (for coverage counters)."""
        ev = {}
        if not samples:
            return ev
        rmask = (1 << self.reg_width) - 1
        for v in samples:
            if not 0 <= v < (1 << self.sample_width):
                # a sample the statement admits (e.g. a latency within max_latency) does not fit the sample
                # width the component chose for itself: a verdict about the component, not a harness error
                from ..kernel import Violation

                raise Violation("sample-does-not-fit-histogram", f"sample {v} does not fit the histogram's sample width {self.sample_width}")
        if (self.total & rmask) + sum(samples) > rmask:
            ev["sum_wrap"] = 1
        if (self.samples & rmask) + len(samples) > rmask:
            ev["count_wrap"] = 1
        if self.lo is not None and min(samples) < self.lo:
            ev["new_min"] = 1
        if self.hi is not None and max(samples) > self.hi:
            ev["new_max"] = 1
        if len(samples) > 1:
            ev["multi"] = 1
            if len(set(samples)) > 1 and self.lo is not None and (min(samples) < self.lo or max(samples) > self.hi):
                ev["multi_minmax"] = 1
        bs = [bucket_of(v, self.bucket_count) for v in samples]
        if len(bs) != len(set(bs)):
            ev["same_bucket_multi"] = 1
        for v, b in zip(samples, bs):
            if (self.buckets[b] & rmask) == rmask:
                ev["bucket_wrap"] = 1
            self.buckets[b] += 1
            if b == self.bucket_count - 1:
                ev["last_bucket"] = 1
                if v.bit_length() > self.bucket_count - 1:
                    ev["beyond_last_bucket_start"] = 1
            if v == 0:
                ev["zero_sample"] = 1
            elif v & (v - 1) == 0:
                ev["bucket_lower_bound"] = 1
            elif v & (v + 1) == 0:
                ev["bucket_upper_bound"] = 1
            if v == (1 << self.sample_width) - 1:
                ev["max_sample"] = 1
        self.samples += len(samples)
        self.total += sum(samples)
        self.lo = min(samples) if self.lo is None else min(self.lo, min(samples))
        self.hi = max(samples) if self.hi is None else max(self.hi, max(samples))
        return ev

    def expected(self) -> dict:
        """Register values; min / max are None (unconstrained) before the first observation."""
        rmask = (1 << self.reg_width) - 1
        out = {"count": self.samples & rmask, "sum": self.total & rmask, "min": self.lo, "max": self.hi}
        for i, b in enumerate(self.buckets):
            out[f"bucket{i}"] = b & rmask
        return out


HIST_KIND = {"count": "hist-count-mismatch", "sum": "hist-sum-mismatch", "min": "hist-min-mismatch",
             "max": "hist-max-mismatch"}


def hist_obs_names(hist) -> dict:
    """model register name -> Signal of a real HwExpHistogram."""
    out = {"count": hist.count.value, "sum": hist.sum.value, "min": hist.min.value, "max": hist.max.value}
    for i, b in enumerate(hist.buckets):
        out[f"bucket{i}"] = b.value
    return out


def compare_hist(scen, model: HistModel, obs: dict, prefix: str):
    """Compare every register of the histogram with the model (exact)."""
    exp = model.expected()
    for name, want in exp.items():
        if want is None:
            continue
        got = obs[prefix + name]
        kind = HIST_KIND.get(name, "hist-bucket-mismatch")
        scen.expect(got == want, kind,
                    f"histogram register {name} = {got}, model {want} (after {model.samples} samples, "
                    f"sum {model.total}, min {model.lo}, max {model.hi}, buckets {model.buckets})", reg=name)
