"""Context programs for C33 / C34: a small design, kept as data, whose only purpose is to put
"sites" (event emissions, log statements) into module contexts -- transaction bodies, method
bodies, m.If / m.Elif / m.Else, m.Switch / m.Case / m.Default, nested -- built with the real
TModule / Transaction / Method / def_method API.  Every condition, selector, request bit, method
readiness and call argument is a free input owned by the cycle driver.

    prog = {"mods": [[node, ...], ...],            one node list per Elaboratable (TModule)
            "ntrans": T, "meths": [{"argw": w, "rdy": 0|1}, ...],
            "nconds": C, "sels": [width, ...]}
    node = {"t": "site", "id": k}
         | {"t": "if", "br": [{"c": [cond index, negated] | None (= Else), "body": [node...]}, ...]}
         | {"t": "switch", "sel": s, "cases": [{"p": [pattern...] | None (= Default), "body": [...]}]}
         | {"t": "trans", "i": i, "calls": [j, ...], "body": [...]}          (top level of a module only)
         | {"t": "meth", "j": j, "body": [...]}                              (top level of a module only)
         | {"t": "avif", "c": [cond index, negated], "body": [...]}          (m.AvoidedIf of TModule)
         | {"t": "fsm", "f": f, "init": state index | None, "states": [{"body": [...], "go": [[c | None, target], ...]}]}
           (m.FSM / m.State("S<i>"); after the state's body `m.next = "S<target>"` statements in the given order,
            each unconditional (c = None) or under m.If(cond); only generated with gen_prog(..., ext=True))

`eval_sites` is the oracle's reading of the same data: a site's context is active iff the body it
sits in runs (observed `run` signal) and every enclosing branch is the one Amaranth selects.  Programs
with FSMs need the state registers: `CtxEval(prog).step(stim, obs)` is eval_sites plus a model of every
FSM (a state is entered at the clock edge after a cycle in which an `m.next` statement was active; the
last active one wins).
"""

from __future__ import annotations

from amaranth import C, Elaboratable, Signal


# ---------------------------------------------------------------------------------------------
# generation


def _gen_cond(rng, prog):
    return [rng.randrange(prog["nconds"]), int(rng.random() < 0.3)]


def _gen_block(rng, sites, depth, prog, max_depth, ext=False):
    nodes = []
    sites = list(sites)
    while sites:
        k = rng.randint(1, len(sites))
        group, sites = sites[:k], sites[k:]
        if depth < max_depth and rng.random() < (0.65 if depth == 0 else 0.45):
            kind = None
            if ext:  # the extra draw happens only for extended programs: old programs are generated as before
                r = rng.random()
                kind = "avif" if r < 0.15 else "fsm" if r < 0.4 else None
            if kind == "avif":
                nodes.append({"t": "avif", "c": _gen_cond(rng, prog),
                              "body": _gen_block(rng, group, depth + 1, prog, max_depth, ext)})
            elif kind == "fsm":
                nst = rng.randint(1, 3)
                parts = [[] for _ in range(nst)]
                for s in group:
                    parts[rng.randrange(nst)].append(s)
                f = prog["nfsm"] = prog.get("nfsm", 0) + 1
                states = []
                for part in parts:
                    go = []
                    for _ in range(rng.choice([0, 1, 1, 2, 2])):
                        go.append([None if rng.random() < 0.25 else _gen_cond(rng, prog), rng.randrange(nst)])
                    states.append({"body": _gen_block(rng, part, depth + 1, prog, max_depth, ext), "go": go})
                nodes.append({"t": "fsm", "f": f - 1, "init": rng.choice([None, rng.randrange(nst)]), "states": states})
            elif rng.random() < 0.6 or not prog["sels"]:
                nbr = rng.randint(1, 3)
                parts = [[] for _ in range(nbr)]
                for s in group:
                    parts[rng.randrange(nbr)].append(s)
                br = []
                for bi, part in enumerate(parts):
                    if bi > 0 and bi == nbr - 1 and rng.random() < 0.5:
                        cond = None
                    else:
                        cond = [rng.randrange(prog["nconds"]), int(rng.random() < 0.3)]
                    br.append({"c": cond, "body": _gen_block(rng, part, depth + 1, prog, max_depth, ext)})
                nodes.append({"t": "if", "br": br})
            else:
                sel = rng.randrange(len(prog["sels"]))
                w = prog["sels"][sel]
                ncs = rng.randint(1, 3)
                parts = [[] for _ in range(ncs)]
                for s in group:
                    parts[rng.randrange(ncs)].append(s)
                cases = []
                for ci, part in enumerate(parts):
                    if ci == ncs - 1 and rng.random() < 0.4:
                        pats = None
                    else:
                        pats = []
                        for _ in range(rng.randint(1, 2)):
                            if rng.random() < 0.25:
                                pats.append("".join(rng.choice("01-") for _ in range(w)))
                            else:
                                pats.append(rng.randrange(1 << w))
                    cases.append({"p": pats, "body": _gen_block(rng, part, depth + 1, prog, max_depth, ext)})
                nodes.append({"t": "switch", "sel": sel, "cases": cases})
        else:
            nodes += [{"t": "site", "id": s} for s in group]
    return nodes


def gen_prog(rng, nsites, max_depth=3, ext=False):
    """Returns (prog, where) -- where[site] = ("top", None) | ("trans", i) | ("meth", j).
    ext: also place sites under m.AvoidedIf and in m.FSM / m.State (evaluate those programs with CtxEval)."""
    ntrans = rng.choice([0, 1, 1, 2, 2, 3]) if rng.random() < 0.25 else rng.choice([1, 2, 2, 3])
    nmeth = rng.choice([0, 1, 1, 2]) if ntrans else 0
    nmods = rng.choice([1, 1, 2])
    prog = {
        "mods": [[] for _ in range(nmods)],
        "ntrans": ntrans,
        "meths": [{"argw": rng.choice([0, 1, 3, 4, 8]), "rdy": int(rng.random() < 0.6)} for _ in range(nmeth)],
        "nconds": rng.randint(1, 4),
        "sels": [rng.randint(1, 3) for _ in range(rng.randint(0, 2))],
    }
    containers = [("top", None)] + [("trans", i) for i in range(ntrans)] + [("meth", j) for j in range(nmeth)]
    weights = [1.0] + [2.0] * ntrans + [2.0] * nmeth
    where = {}
    for s in range(nsites):
        where[s] = rng.choices(containers, weights)[0]
    calls = {i: [] for i in range(ntrans)}
    for j in range(nmeth):
        callers = [i for i in range(ntrans) if rng.random() < 0.5]
        if not callers:
            callers = [rng.randrange(ntrans)]
        for i in callers:
            calls[i].append(j)
    for c in containers:
        mine = [s for s in range(nsites) if where[s] == c]
        rng.shuffle(mine)
        body = _gen_block(rng, mine, 0, prog, max_depth, ext)
        mod = prog["mods"][rng.randrange(nmods)]
        if c[0] == "top":
            mod.extend(body)
        elif c[0] == "trans":
            mod.append({"t": "trans", "i": c[1], "calls": calls[c[1]], "body": body})
        else:
            mod.append({"t": "meth", "j": c[1], "body": body})
    for mod in prog["mods"]:
        rng.shuffle(mod)
    return prog, {str(s): list(where[s]) for s in where}


def prog_inputs(prog):
    """[(input name, width)] of the context inputs, in a fixed order."""
    out = [(f"c{i}", 1) for i in range(prog["nconds"])]
    out += [(f"sel{s}", w) for s, w in enumerate(prog["sels"])]
    out += [(f"t{i}.req", 1) for i in range(prog["ntrans"])]
    out += [(f"m{j}.rdy", 1) for j, md in enumerate(prog["meths"]) if md["rdy"]]
    for mod in prog["mods"]:
        for n in mod:
            if n["t"] == "trans":
                for j in n["calls"]:
                    if prog["meths"][j]["argw"]:
                        out.append((f"t{n['i']}.a{j}", prog["meths"][j]["argw"]))
    return out


def gen_ctx_stim(rng, prog, kind, p):
    """Context part of one cycle's stimulus.  kind: random | on | off | flap."""
    stim = {}
    for name, w in prog_inputs(prog):
        if w == 1:
            q = {"random": p, "on": 0.93, "off": 0.12, "flap": 0.5}[kind]
            if name.startswith("c") and kind == "on":
                q = 0.5  # conditions may be negated: "on" means bodies run, branches vary
            stim[name] = int(rng.random() < q)
        else:
            stim[name] = rng.getrandbits(w)
    return stim


# ---------------------------------------------------------------------------------------------
# the design


class _Mod(Elaboratable):
    def __init__(self, design, nodes):
        self.design = design
        self.nodes = nodes

    def elaborate(self, platform):
        from transactron import TModule

        m = TModule()
        self.design._nodes(m, self.nodes, {"arg": None})
        return m


class CtxDesign:
    def __init__(self, prog, emit_site):
        from transactron import Method

        self.prog = prog
        self.emit_site = emit_site  # emit_site(m, site_id, env): called at the site's place in the program
        self.sig = {name: Signal(w, name=name.replace(".", "_")) for name, w in prog_inputs(prog)}
        self.meths = [Method(name=f"m{j}", i=[("x", md["argw"])] if md["argw"] else []) for j, md in enumerate(prog["meths"])]
        self.trans: dict = {}
        self.mods = [_Mod(self, nodes) for nodes in prog["mods"]]

    def _cond(self, c):
        s = self.sig[f"c{c[0]}"]
        return ~s if c[1] else s

    def _nodes(self, m, nodes, env):
        from transactron import Transaction, def_method

        for n in nodes:
            t = n["t"]
            if t == "site":
                self.emit_site(m, n["id"], env)
            elif t == "if":
                for bi, br in enumerate(n["br"]):
                    if bi == 0:
                        cm = m.If(self._cond(br["c"]))
                    elif br["c"] is None:
                        cm = m.Else()
                    else:
                        cm = m.Elif(self._cond(br["c"]))
                    with cm:
                        self._nodes(m, br["body"], env)
            elif t == "switch":
                with m.Switch(self.sig[f"sel{n['sel']}"]):
                    for cs in n["cases"]:
                        with (m.Default() if cs["p"] is None else m.Case(*cs["p"])):
                            self._nodes(m, cs["body"], env)
            elif t == "avif":
                with m.AvoidedIf(self._cond(n["c"])):
                    self._nodes(m, n["body"], env)
            elif t == "fsm":
                kw = {} if n["init"] is None else {"init": f"S{n['init']}"}
                with m.FSM(name=f"fsm{n['f']}", **kw):
                    for si, st in enumerate(n["states"]):
                        with m.State(f"S{si}"):
                            self._nodes(m, st["body"], env)
                            for c, tgt in st["go"]:
                                if c is None:
                                    m.next = f"S{tgt}"
                                else:
                                    with m.If(self._cond(c)):
                                        m.next = f"S{tgt}"
            elif t == "trans":
                i = n["i"]
                with Transaction(name=f"t{i}").body(m, ready=self.sig[f"t{i}.req"]) as tr:
                    self.trans[i] = tr
                    for j in n["calls"]:
                        if self.prog["meths"][j]["argw"]:
                            self.meths[j](m, x=self.sig[f"t{i}.a{j}"])
                        else:
                            self.meths[j](m)
                    self._nodes(m, n["body"], env)
            elif t == "meth":
                j = n["j"]
                ready = self.sig[f"m{j}.rdy"] if self.prog["meths"][j]["rdy"] else C(1)

                @def_method(m, self.meths[j], ready=ready)
                def _(arg):  # the body runs right here, inside def_method: closing over n / env is safe
                    self._nodes(m, n["body"], {**env, "arg": arg})
            else:
                raise ValueError(t)


# ---------------------------------------------------------------------------------------------
# the oracle's reading


def _match(v, w, pat):
    if isinstance(pat, str):
        bits = format(v, f"0{w}b")
        return all(p == "-" or p == b for p, b in zip(pat, bits))
    return v == pat


def eval_sites(prog, stim, obs, fsm_state=None, fsm_next=None):
    """site id -> {"body": body runs (or no body), "cond": enclosing branches selected, "meth": j | None,
    "fsm": None (not in an FSM state) | all enclosing states are the current ones,
    "av": None (not under m.AvoidedIf) | all enclosing AvoidedIf conditions hold}.
    fsm_state: {f: current state index} (needed iff the program has FSMs); fsm_next (a dict) receives the
    states entered at the coming clock edge."""
    out = {}

    def cval(c):
        return bool(stim.get(f"c{c[0]}", 0)) != bool(c[1])

    def walk(nodes, body, cond, meth, fsm, av):
        for n in nodes:
            t = n["t"]
            if t == "site":
                out[n["id"]] = {"body": body, "cond": cond, "meth": meth, "fsm": fsm, "av": av}
            elif t == "if":
                prev = False
                for br in n["br"]:
                    if br["c"] is None:
                        here = not prev
                    else:
                        val = cval(br["c"])
                        here = val and not prev
                        prev = prev or val
                    walk(br["body"], body, cond and here, meth, fsm, av)
            elif t == "switch":
                v = stim.get(f"sel{n['sel']}", 0)
                w = prog["sels"][n["sel"]]
                matched = False
                for cs in n["cases"]:
                    hit = (not matched) and (cs["p"] is None or any(_match(v, w, p) for p in cs["p"]))
                    matched = matched or hit
                    walk(cs["body"], body, cond and hit, meth, fsm, av)
            elif t == "avif":
                on = cval(n["c"])
                walk(n["body"], body, cond and on, meth, fsm, on if av is None else (av and on))
            elif t == "fsm":
                cur = fsm_state[n["f"]]
                for si, st in enumerate(n["states"]):
                    here = si == cur
                    walk(st["body"], body, cond and here, meth, here if fsm is None else (fsm and here), av)
                    if body and cond and here and fsm_next is not None:
                        for c, tgt in st["go"]:
                            if c is None or cval(c):
                                fsm_next[n["f"]] = tgt
            elif t == "trans":
                walk(n["body"], bool(obs[f"t{n['i']}.run"]), cond, meth, fsm, av)
            elif t == "meth":
                walk(n["body"], bool(obs[f"m{n['j']}.run"]), cond, n["j"], fsm, av)

    for mod in prog["mods"]:
        walk(mod, True, True, None, None, None)
    return out


class CtxEval:
    """eval_sites for programs with FSMs: keeps the state registers between the cycles.  step() must be
    called exactly once per simulated cycle, in order, from cycle 0 (reset: every FSM in its init state)."""

    def __init__(self, prog):
        self.prog = prog
        self.state: dict = {}

        def scan(nodes):
            for n in nodes:
                t = n["t"]
                if t == "fsm":
                    self.state[n["f"]] = n["init"] or 0
                    for st in n["states"]:
                        scan(st["body"])
                elif t == "if":
                    for br in n["br"]:
                        scan(br["body"])
                elif t == "switch":
                    for cs in n["cases"]:
                        scan(cs["body"])
                elif t in ("avif", "trans", "meth"):
                    scan(n["body"])

        for mod in prog["mods"]:
            scan(mod)

    def step(self, stim, obs):
        nxt: dict = {}
        out = eval_sites(self.prog, stim, obs, self.state, nxt)
        self.state.update(nxt)
        return out


def callers_of(prog, j):
    return [n["i"] for mod in prog["mods"] for n in mod if n["t"] == "trans" and j in n["calls"]]


def running_arg(prog, j, stim, obs):
    """Argument the running method j received: the call argument of its (single) running caller.
    Returns None when that is not unique (the core properties, not these, speak about that)."""
    run = [i for i in callers_of(prog, j) if obs[f"t{i}.run"]]
    if len(run) != 1:
        return None
    return stim.get(f"t{run[0]}.a{j}", 0)


def to_signed(v, w):
    v &= (1 << w) - 1
    return v - (1 << w) if v >> (w - 1) else v
