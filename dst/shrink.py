"""Minimisation of a violating run (DESIGN.md 2.6): truncate, drop cycles (ddmin), clear request
bits / shrink values, then shrink the configuration or generated program — while a violation of the
*same kind* persists.  Every candidate is a full re-execution from the recorded data (no PRNG)."""

from __future__ import annotations

import copy
import time

from . import kernel


def _class_of(prop, r):
    """Violation class of a result: the kind plus whatever the property uses to tell classes / known findings
    apart, so that minimisation cannot drift from one defect into another one of the same kind."""
    feats = {"kind": r["violation"]["kind"]}
    if hasattr(prop, "features"):
        try:
            feats.update(prop.features(r["cfg"], r["violation"]))
        except Exception:
            pass
    if hasattr(prop, "violation_class"):
        try:
            return repr(sorted(prop.violation_class(feats).items()))
        except Exception:
            pass
    return feats["kind"]


def _same(prop, want, cfg, salt, stim):
    r = kernel.replay_record(prop, cfg, salt, stim, wall_budget=20.0)
    if r["status"] == "violation" and _class_of(prop, r) == want:
        return r
    return None


def minimise(prop, res, budget_s=30.0):
    t_end = time.time() + budget_s
    kind = _class_of(prop, res)
    cfg, salt = res["cfg"], res["salt"]
    stim = list(res["stimulus"] or [])
    best = _same(prop, kind, cfg, salt, stim)
    if best is None:
        return None  # cannot even reproduce from the record: reported as is (and caught by replay)
    tried = 1

    def attempt(c, s):
        nonlocal best, cfg, stim, tried
        if time.time() > t_end:
            return False
        tried += 1
        r = _same(prop, kind, c, salt, s)
        if r is not None:
            best, cfg = r, c
            stim = list(r["stimulus"])[: r["violation"]["cycle"] + 1] if r["stimulus"] else s
            return True
        return False

    # 1. truncate after the violating cycle
    stim = stim[: best["violation"]["cycle"] + 1]

    # 2. configuration / program shrinking proposed by the property
    if hasattr(prop, "shrink_cfg"):
        progress = True
        while progress and time.time() < t_end:
            progress = False
            for cand in prop.shrink_cfg(copy.deepcopy(cfg)):
                if attempt(cand, stim):
                    progress = True
                    break

    # 3. ddmin over cycles
    n = max(1, len(stim) // 2)
    while n >= 1 and time.time() < t_end and len(stim) > 1:
        i = 0
        removed = False
        while i < len(stim) and time.time() < t_end:
            cand = stim[:i] + stim[i + n:]
            if cand and attempt(cfg, cand):
                removed = True
            else:
                i += n
        if not removed or n == 1:
            n //= 2

    # 4. clear request bits / shrink values towards 0
    for cyc in range(len(stim) - 1, -1, -1):
        if time.time() > t_end or cyc >= len(stim):
            continue
        for key in sorted(stim[cyc]):
            v = stim[cyc][key]
            if not v or time.time() > t_end or cyc >= len(stim):
                continue
            for nv in ([0] if v == 1 else [0, 1, v // 2]):
                if nv == v:
                    continue
                cand = [dict(d) for d in stim]
                cand[cyc][key] = nv
                if attempt(cfg, cand):
                    break

    return {
        "cfg": cfg,
        "salt": salt,
        "stimulus": stim,
        "violation": best["violation"],
        "digest": _same(prop, kind, cfg, salt, stim)["digest"],
        "candidates_tried": tried,
    }
